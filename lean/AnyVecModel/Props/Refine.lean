/-
  AnyVecModel.Props.Refine — C01 (and the capacity rules of C10) as a refinement: any sequence of element-wise and
  capacity operations on a vector, from any world satisfying the invariant, behaves like the same sequence on an abstract
  `Vec` (a list of element identities, a fresh-identity counter and a capacity). The only freedom the abstract side has
  is the storage's: an operation which needs room when the vector is full either grows the capacity (never on a fixed
  storage) or is refused (capacity overflow, fixed capacity): then the value offered is destroyed and the vector is
  unchanged - which is also what `std::vec::Vec` does up to its panic. With room nothing may be refused.
-/
import AnyVecModel.Proofs.Exec
import AnyVecModel.Props.Hist
import AnyVecModel.Proofs.ExecSplice
namespace AnyVec
namespace Refine
open World

/-- the operations of C01 / C10: values come as owned wrappers, removal handles are dropped -/
inductive VOp where
  | push | tpush | insert (i : Nat) | tinsert (i : Nat)
  | pop | remove (i : Nat) | swapRemove (i : Nat) | clear
  /-- `drain(a..b)`: the items the calls `cs` (`next` / `next_back` in any pattern) yield are dropped one by one, then
  the iterator is dropped -/
  | drain (a b : Nat) (cs : List End)
  /-- removals through the typed view: the value goes to the caller -/
  | tpop | tremove (i : Nat) | tswapRemove (i : Nat)
  /-- capacity requests (`reserve` on every storage, the other three on resizable storages only) -/
  | reserve (n : Nat) | reserveExact (n : Nat) | shrinkToFit | shrinkTo (n : Nat)
  /-- `as_mut_slice().swap(i, j)` and `*at_mut(i) = fresh value` through the typed view -/
  | swap (i j : Nat) | assign (i : Nat)
  /-- `splice(a..b, k fresh owned values)`: the replaced items the calls `cs` yield are dropped one by one, then the
  iterator is dropped -/
  | splice (a b k : Nat) (cs : List End)
  /-- `mem::forget` of the handle `pop()` / `remove(i)` / `swap_remove(i)` returns, and of an untouched `drain(a..b)` -/
  | popForget | removeForget (i : Nat) | swapRemoveForget (i : Nat) | drainForget (a b : Nat)
  deriving Repr, DecidableEq

/-- the script step of an abstract operation on vector `v` whose elements have type `ty` -/
def VOp.toOp (v ty : Nat) : VOp → Op
  | .push => .push v (.wrapper ty)
  | .tpush => .tpush v
  | .insert i => .insert v i (.wrapper ty)
  | .tinsert i => .tinsert v i
  | .pop => .pop v .drop
  | .remove i => .remove v i .drop
  | .swapRemove i => .swapRemove v i .drop
  | .clear => .clear v
  | .drain a b cs => .drain v (.incl a) (.excl b) false (cs.map fun e => (e, Sink.drop)) .drop
  | .tpop => .tpop v
  | .tremove i => .tremove v i
  | .tswapRemove i => .tswapRemove v i
  | .reserve n => .reserve v n
  | .reserveExact n => .reserveExact v n
  | .shrinkToFit => .shrinkToFit v
  | .shrinkTo n => .shrinkTo v n
  | .swap i j => .tswap v i j
  | .assign i => .tassign v i
  | .splice a b k cs =>
    .splice v (.incl a) (.excl b) false (List.replicate k (.wrapper ty)) 0 (cs.map fun e => (e, Sink.drop)) .drop
  | .popForget => .pop v .forget
  | .removeForget i => .remove v i .forget
  | .swapRemoveForget i => .swapRemove v i .forget
  | .drainForget a b => .drain v (.incl a) (.excl b) false [] .forget

/-- `Vec<Id>` plus the counter identities are drawn from, its capacity, and whether the storage has a fixed capacity
(`Stack`, `StackN`, `Empty`: there `reserve_exact` / `shrink_to*` do not exist) -/
structure Spec where
  items : List Nat
  next : Nat
  cap : Nat
  fixed : Bool
  /-- whether the vector's constraint set has `Cloneable` (only then `clone()` exists) -/
  cloneable : Bool := true
  deriving Repr, DecidableEq

/-- operations a vector on this kind of storage has -/
def VOp.Allowed (fixed : Bool) : VOp → Prop
  | .reserveExact _ => fixed = false
  | .shrinkToFit => fixed = false
  | .shrinkTo _ => fixed = false
  | _ => True

/-- making room for one more element: `some c` - there is room afterwards, with capacity `c`; `none` - refused.
With room nothing happens; a full vector grows (not on a fixed storage) or is refused. -/
inductive Spec.Room : Spec → Option Nat → Prop where
  | room (s : Spec) (h : s.items.length < s.cap) : Room s (some s.cap)
  | grow (s : Spec) (c : Nat) (hfull : s.items.length = s.cap) (hfix : s.fixed = false) (hc : s.cap < c) : Room s (some c)
  | refuse (s : Spec) (hfull : s.items.length = s.cap) : Room s none

/-- what the abstract vector does -/
inductive Spec.Step : Spec → VOp → Spec → Prop where
  | push (s : Spec) (c : Nat) (h : s.Room (some c)) :
      Step s .push { s with items := s.items ++ [s.next], next := s.next + 1, cap := c }
  | pushRefused (s : Spec) (h : s.Room none) : Step s .push { s with next := s.next + 1 }
  | tpush (s : Spec) (c : Nat) (h : s.Room (some c)) :
      Step s .tpush { s with items := s.items ++ [s.next], next := s.next + 1, cap := c }
  | tpushRefused (s : Spec) (h : s.Room none) : Step s .tpush { s with next := s.next + 1 }
  | insert (s : Spec) (i c : Nat) (hi : i ≤ s.items.length) (h : s.Room (some c)) :
      Step s (.insert i) { s with items := s.items.insertIdx i s.next, next := s.next + 1, cap := c }
  | insertRefused (s : Spec) (i : Nat) (h : s.items.length < i ∨ s.Room none) :
      Step s (.insert i) { s with next := s.next + 1 }
  | tinsert (s : Spec) (i c : Nat) (hi : i ≤ s.items.length) (h : s.Room (some c)) :
      Step s (.tinsert i) { s with items := s.items.insertIdx i s.next, next := s.next + 1, cap := c }
  | tinsertRefused (s : Spec) (i : Nat) (h : s.items.length < i ∨ s.Room none) :
      Step s (.tinsert i) { s with next := s.next + 1 }
  | pop (s : Spec) : Step s .pop { s with items := s.items.take (s.items.length - 1) }
  | remove (s : Spec) (i : Nat) (h : i < s.items.length) : Step s (.remove i) { s with items := s.items.eraseIdx i }
  | removeOut (s : Spec) (i : Nat) (h : s.items.length ≤ i) : Step s (.remove i) s
  | swapRemove (s : Spec) (i : Nat) (h : i < s.items.length) :
      Step s (.swapRemove i)
        { s with items := (s.items.set i (s.items.getD (s.items.length - 1) 0)).take (s.items.length - 1) }
  | swapRemoveOut (s : Spec) (i : Nat) (h : s.items.length ≤ i) : Step s (.swapRemove i) s
  | clear (s : Spec) : Step s .clear { s with items := [] }
  | drain (s : Spec) (a b : Nat) (cs : List End) (h : a ≤ b ∧ b ≤ s.items.length) :
      Step s (.drain a b cs) { s with items := s.items.take a ++ s.items.drop b }
  | drainOut (s : Spec) (a b : Nat) (cs : List End) (h : ¬ (a ≤ b ∧ b ≤ s.items.length)) : Step s (.drain a b cs) s
  | tpop (s : Spec) : Step s .tpop { s with items := s.items.take (s.items.length - 1) }
  | tremove (s : Spec) (i : Nat) (h : i < s.items.length) : Step s (.tremove i) { s with items := s.items.eraseIdx i }
  | tremoveOut (s : Spec) (i : Nat) (h : s.items.length ≤ i) : Step s (.tremove i) s
  | tswapRemove (s : Spec) (i : Nat) (h : i < s.items.length) :
      Step s (.tswapRemove i)
        { s with items := (s.items.set i (s.items.getD (s.items.length - 1) 0)).take (s.items.length - 1) }
  | tswapRemoveOut (s : Spec) (i : Nat) (h : s.items.length ≤ i) : Step s (.tswapRemove i) s
  /-- `reserve(n)`: nothing when `len + n` fits; otherwise the capacity grows to at least `len + n` (not on a fixed
  storage) or the request is refused. The items never change. -/
  | reserveFits (s : Spec) (n : Nat) (h : s.items.length + n ≤ s.cap) : Step s (.reserve n) s
  | reserveGrow (s : Spec) (n c : Nat) (h : s.cap < s.items.length + n) (hfix : s.fixed = false)
      (hc : s.items.length + n ≤ c) : Step s (.reserve n) { s with cap := c }
  | reserveRefused (s : Spec) (n : Nat) (h : s.cap < s.items.length + n) : Step s (.reserve n) s
  /-- `reserve_exact(n)`: as `reserve`, growing to exactly `len + n` -/
  | reserveExactFits (s : Spec) (n : Nat) (h : s.items.length + n ≤ s.cap) : Step s (.reserveExact n) s
  | reserveExactGrow (s : Spec) (n : Nat) (h : s.cap < s.items.length + n) :
      Step s (.reserveExact n) { s with cap := s.items.length + n }
  | reserveExactRefused (s : Spec) (n : Nat) (h : s.cap < s.items.length + n) : Step s (.reserveExact n) s
  /-- `shrink_to_fit`: the capacity becomes the length (or the storage refuses and nothing changes) -/
  | shrinkToFit (s : Spec) : Step s .shrinkToFit { s with cap := s.items.length }
  | shrinkToFitRefused (s : Spec) : Step s .shrinkToFit s
  /-- `shrink_to(m)`: the capacity becomes `min(capacity, max(len, m))` -/
  | shrinkTo (s : Spec) (m : Nat) : Step s (.shrinkTo m) { s with cap := min s.cap (max s.items.length m) }
  | shrinkToRefused (s : Spec) (m : Nat) : Step s (.shrinkTo m) s
  | swap (s : Spec) (i j : Nat) (h : i < s.items.length ∧ j < s.items.length) :
      Step s (.swap i j) { s with items := (s.items.set i (s.items.getD j 0)).set j (s.items.getD i 0) }
  | swapOut (s : Spec) (i j : Nat) (h : ¬ (i < s.items.length ∧ j < s.items.length)) : Step s (.swap i j) s
  | assign (s : Spec) (i : Nat) (h : i < s.items.length) :
      Step s (.assign i) { s with items := s.items.set i s.next, next := s.next + 1 }
  | assignOut (s : Spec) (i : Nat) (h : s.items.length ≤ i) : Step s (.assign i) { s with next := s.next + 1 }
  /-- `splice(a..b, k values)`: the items of `a..b` are replaced by the `k` new ones; the capacity stays when the
  result fits, grows (not on a fixed storage) when it does not - or the storage refuses: then the new values are
  destroyed and, the iterator's drop having panicked, the vector keeps only the items before `a` (the crate's documented
  leak-on-panic behaviour). Out-of-range: only the values are consumed. -/
  | spliceFits (s : Spec) (a b k : Nat) (cs : List End) (h : a ≤ b ∧ b ≤ s.items.length)
      (hfit : a + k + (s.items.length - b) ≤ s.cap) :
      Step s (.splice a b k cs)
        { s with items := s.items.take a ++ List.range' s.next k ++ s.items.drop b, next := s.next + k }
  | spliceGrow (s : Spec) (a b k c : Nat) (cs : List End) (h : a ≤ b ∧ b ≤ s.items.length)
      (hover : s.cap < a + k + (s.items.length - b)) (hfix : s.fixed = false) (hc : a + k + (s.items.length - b) ≤ c) :
      Step s (.splice a b k cs)
        { s with items := s.items.take a ++ List.range' s.next k ++ s.items.drop b, next := s.next + k, cap := c }
  | spliceRefused (s : Spec) (a b k : Nat) (cs : List End) (h : a ≤ b ∧ b ≤ s.items.length)
      (hover : s.cap < a + k + (s.items.length - b) ∨ USIZE_MAX < a + k + (s.items.length - b)) :
      Step s (.splice a b k cs) { s with items := s.items.take a, next := s.next + k }
  | spliceOut (s : Spec) (a b k : Nat) (cs : List End) (h : ¬ (a ≤ b ∧ b ≤ s.items.length)) :
      Step s (.splice a b k cs) { s with next := s.next + k }
  /-- forgetting a handle or a range iterator only leaks (C07): the vector keeps exactly the items before the place the
  operation started at - the length was lowered when the handle was made and nothing restores it; nothing is destroyed -/
  | popForget (s : Spec) : Step s .popForget { s with items := s.items.take (s.items.length - 1) }
  | removeForget (s : Spec) (i : Nat) (h : i < s.items.length) : Step s (.removeForget i) { s with items := s.items.take i }
  | removeForgetOut (s : Spec) (i : Nat) (h : s.items.length ≤ i) : Step s (.removeForget i) s
  | swapRemoveForget (s : Spec) (i : Nat) (h : i < s.items.length) :
      Step s (.swapRemoveForget i) { s with items := s.items.take i }
  | swapRemoveForgetOut (s : Spec) (i : Nat) (h : s.items.length ≤ i) : Step s (.swapRemoveForget i) s
  | drainForget (s : Spec) (a b : Nat) (h : a ≤ b ∧ b ≤ s.items.length) :
      Step s (.drainForget a b) { s with items := s.items.take a }
  | drainForgetOut (s : Spec) (a b : Nat) (h : ¬ (a ≤ b ∧ b ≤ s.items.length)) : Step s (.drainForget a b) s

/-- the concrete world shows the abstract vector at `v`, and every other vector is what the background `bg` says -/
structure Rel (bg : Nat → Option VecSt) (v ty : Nat) (w : World) (s : Spec) : Prop where
  inv : w.Inv
  nofault : w.fault = none
  vec : ∃ d, w.vecs[v]? = some d ∧ d.live = true ∧ d.ty = ty ∧ d.abs = s.items.map Cell.val ∧
    d.cap = s.cap ∧ (VecSt.resizable d.bk = !s.fixed ∧ d.cloneable = s.cloneable)
  next : w.created = s.next
  others : ∀ u, u ≠ v → w.vecs[u]? = bg u

variable {bg : Nat → Option VecSt}

/-- the other vectors after a step: discharged by unfolding what the step did to the list of vectors -/
macro "frame_tac" h:ident : tactic =>
  `(tactic| (intro u hu; have hq := $h u hu
             simp_all [List.getElem?_set, World.upd, World.bump, World.bumpN, logDrop, Ne.symm hu]))

theorem vis_eq (w : World) (v : Nat) (d : VecSt) (hv : w.vecs[v]? = some d) : w.vis v = d.abs := by
  simp [World.vis, hv]

/-- storing a new state for `v`: the other parts of the relation carry over -/
theorem Rel.mk' {v ty : Nat} {w' : World} {s' : Spec} (hinv : w'.Inv) (hothers : ∀ u, u ≠ v → w'.vecs[u]? = bg u)
    (hf : w'.fault = none) (d' : VecSt)
    (hv : w'.vecs[v]? = some d') (hl : d'.live = true) (hty : d'.ty = ty) (habs : d'.abs = s'.items.map Cell.val)
    (hn : w'.created = s'.next) (hcap : d'.cap = s'.cap)
    (hbk : VecSt.resizable d'.bk = !s'.fixed ∧ d'.cloneable = s'.cloneable) : Rel bg v ty w' s' :=
  ⟨hinv, hf, ⟨d', hv, hl, hty, habs, hcap, hbk⟩, hn, hothers⟩

theorem set_get (w : World) (v : Nat) (d x : VecSt) (hv : w.vecs[v]? = some d) : (w.vecs.set v x)[v]? = some x := by
  have hlt : v < w.vecs.length := (List.getElem?_eq_some_iff.mp hv).1
  simp [hlt]

theorem map_insertIdx' {α β} (f : α → β) (l : List α) (i : Nat) (a : α) :
    (l.insertIdx i a).map f = (l.map f).insertIdx i (f a) := by
  induction l generalizing i with
  | nil => cases i <;> simp [List.insertIdx]
  | cons x xs ih =>
    cases i with
    | zero => simp [List.insertIdx]
    | succ j => simp [List.insertIdx_succ_cons, ih]

theorem map_eraseIdx' {α β} (f : α → β) (l : List α) (i : Nat) : (l.eraseIdx i).map f = (l.map f).eraseIdx i := by
  induction l generalizing i with
  | nil => simp
  | cons x xs ih =>
    cases i with
    | zero => simp
    | succ j => simp [ih]

theorem abs_len {d : VecSt} {items : List Nat} (hwf : d.WF) (habs : d.abs = items.map Cell.val) : items.length = d.len := by
  have := VecSt.abs_length hwf
  rw [habs] at this; simpa using this

/-- only a resizable storage grows -/
theorem memExpand_resizable (d d1 : VecSt) (a : Nat) (es : List Event) (h : d.memExpand a = .ok (d1, es)) :
    VecSt.resizable d.bk = true := by
  unfold VecSt.memExpand at h
  cases hb : d.bk <;> simp [hb] at h <;> rfl

/-- `reserve_one` that returns: there was room, or the (resizable) storage grew -/
theorem room_ok {d d1 : VecSt} {es : List Event} {s : Spec} (hwf : d.WF) (habs : d.abs = s.items.map Cell.val)
    (hcp : d.cap = s.cap) (hbk : VecSt.resizable d.bk = !s.fixed) (hr : d.reserveOne = .ok (d1, es)) :
    s.Room (some d1.cap) := by
  have hlen := abs_len hwf habs
  have hlc := hwf.len_le_cap
  unfold VecSt.reserveOne at hr
  split at hr
  · rename_i hfull
    obtain ⟨hc, _⟩ := memExpand_spec d d1 1 es hwf hr
    have hrz := memExpand_resizable d d1 1 es hr
    refine Spec.Room.grow s d1.cap (by omega) ?_ (by omega)
    rw [hrz] at hbk; cases hfx : s.fixed <;> simp [hfx] at hbk ⊢
  · rename_i hnf
    cases hr
    rw [hcp]
    exact Spec.Room.room s (by omega)

/-- `reserve_one` that panics: the vector was full -/
theorem room_refused {d : VecSt} {m : String} {s : Spec} (hwf : d.WF) (habs : d.abs = s.items.map Cell.val)
    (hcp : d.cap = s.cap) (hr : d.reserveOne = .panic m) : s.Room none := by
  have hlen := abs_len hwf habs
  unfold VecSt.reserveOne at hr
  split at hr
  · exact Spec.Room.refuse s (by omega)
  · cases hr

/-- `push` of an owned value -/
theorem step_push (cfg : Cfg) (v ty : Nat) (w : World) (s : Spec) (h : Rel bg v ty w s) :
    ∃ s', Spec.Step s .push s' ∧ Rel bg v ty (step cfg (VOp.push.toOp v ty) w).1 s' ∧
      (step cfg (VOp.push.toOp v ty) w).2.notUb := by
  obtain ⟨hinv, hf, ⟨d, hv, hl, hty, habs, hcp, hbk⟩, hn, hbg⟩ := h
  have hcore : Hist.Core (VOp.push.toOp v ty) := trivial
  have hvalid : Hist.Valid w.vecs (VOp.push.toOp v ty) := ⟨⟨d, hv, hl⟩, by intro u i dp hh; cases hh⟩
  obtain ⟨hinv', hnub⟩ := Hist.step_inv cfg _ w hinv hcore hvalid
  have hg := hinv.good v d hv
  cases hr : d.reserveOne with
  | ok p =>
    obtain ⟨d1, es⟩ := p
    obtain ⟨hroom, hlen1, ha, hw1, hty1, _, _, _, hcl1, hbk1, hl1⟩ := reserveOne_spec d d1 es hg.wf hr
    have hvb : w.bump.vecs[v]? = some d := hv
    have hex := pushUnchecked_plain w.bump v w.created (.wrapper w.created ty) (Val.Plain.wrapper _ _) d d1 es hvb hl hg.wf hr
    have hstep : step cfg (VOp.push.toOp v ty) w =
        ({ w.bump with vecs := w.bump.vecs.set v (d1.pushCell (.val w.created)), ev := es.reverse ++ w.bump.ev }, .ok []) := by
      have hb : ({ w with created := w.created + 1 } : World) = w.bump := rfl
      simp only [VOp.toOp, step, mkVal, WM.bind_apply, fresh, WM.pure_apply, push, hb, getVec_ok w.bump v d hvb hl, valTy, hty,
        ne_eq, not_true_eq_false, if_false, hex]
    refine ⟨_, Spec.Step.push s d1.cap (room_ok hg.wf habs hcp hbk.1 hr), ?_, hnub⟩
    rw [hstep] at hinv' ⊢
    refine Rel.mk' (bg := bg) hinv' (by frame_tac hbg) (by simpa [World.bump] using hf) (d1.pushCell (.val w.created)) (set_get w.bump v d _ hvb)
      (by simp [VecSt.pushCell, hl1, hl]) (by simp [VecSt.pushCell, hty1, hty]) ?_ (by simp [World.bump, hn])
      (by simp [VecSt.pushCell]) (by simp [VecSt.pushCell, hbk1, hcl1, hbk])
    rw [VecSt.pushCell_abs d1 _ hw1, ha, habs, hn]; simp
  | panic m =>
    refine ⟨_, Spec.Step.pushRefused s (room_refused hg.wf habs hcp hr), ?_, hnub⟩
    have hvb : w.bump.vecs[v]? = some d := hv
    have hstep : step cfg (VOp.push.toOp v ty) w =
        (logDrop d.hasDrop w.created { w.bump with fault := none }, .panic m) := by
      have hb : ({ w with created := w.created + 1 } : World) = w.bump := rfl
      simp only [VOp.toOp, step, mkVal, WM.bind_apply, fresh, WM.pure_apply, push, hb, getVec_ok w.bump v d hvb hl, valTy, hty,
        ne_eq, not_true_eq_false, if_false, pushUnchecked, WM.onUnwind, vecOp, hr, WM.lift, valDrop, dropElem, WM.modify_apply]
      cases d.hasDrop <;> simp [tick, logDrop, WM.pure_apply]
    rw [hstep] at hinv' ⊢
    exact Rel.mk' (bg := bg) hinv' (by frame_tac hbg) rfl d (by simpa [logDrop] using hvb) hl hty habs (by simp [logDrop, World.bump, hn]) hcp hbk
  | ub m =>
    have := reserveOne_notUb d
    rw [hr] at this; exact this.elim

/-- `push` through the typed view -/
theorem step_tpush (cfg : Cfg) (v ty : Nat) (w : World) (s : Spec) (h : Rel bg v ty w s) :
    ∃ s', Spec.Step s .tpush s' ∧ Rel bg v ty (step cfg (VOp.tpush.toOp v ty) w).1 s' ∧
      (step cfg (VOp.tpush.toOp v ty) w).2.notUb := by
  obtain ⟨hinv, hf, ⟨d, hv, hl, hty, habs, hcp, hbk⟩, hn, hbg⟩ := h
  have hcore : Hist.Core (VOp.tpush.toOp v ty) := trivial
  have hvalid : Hist.Valid w.vecs (VOp.tpush.toOp v ty) := ⟨d, hv, hl⟩
  obtain ⟨hinv', hnub⟩ := Hist.step_inv cfg _ w hinv hcore hvalid
  have hg := hinv.good v d hv
  have hvb : w.bump.vecs[v]? = some d := hv
  have hb : ({ w with created := w.created + 1 } : World) = w.bump := rfl
  cases hr : d.reserveOne with
  | ok p =>
    obtain ⟨d1, es⟩ := p
    obtain ⟨hroom, hlen1, ha, hw1, hty1, _, _, _, hcl1, hbk1, hl1⟩ := reserveOne_spec d d1 es hg.wf hr
    have hex := pushUnchecked_plain w.bump v w.created (.wrapper w.created d.ty) (Val.Plain.wrapper _ _) d d1 es hvb hl hg.wf hr
    have hstep : step cfg (VOp.tpush.toOp v ty) w =
        ({ w.bump with vecs := w.bump.vecs.set v (d1.pushCell (.val w.created)), ev := es.reverse ++ w.bump.ev }, .ok []) := by
      simp only [VOp.toOp, step, WM.bind_apply, getVec_ok w v d hv hl, fresh, WM.pure_apply, hb, hex]
    refine ⟨_, Spec.Step.tpush s d1.cap (room_ok hg.wf habs hcp hbk.1 hr), ?_, hnub⟩
    rw [hstep] at hinv' ⊢
    refine Rel.mk' (bg := bg) hinv' (by frame_tac hbg) (by simpa [World.bump] using hf) (d1.pushCell (.val w.created)) (set_get w.bump v d _ hvb)
      (by simp [VecSt.pushCell, hl1, hl]) (by simp [VecSt.pushCell, hty1, hty]) ?_ (by simp [World.bump, hn])
      (by simp [VecSt.pushCell]) (by simp [VecSt.pushCell, hbk1, hcl1, hbk])
    rw [VecSt.pushCell_abs d1 _ hw1, ha, habs, hn]; simp
  | panic m =>
    refine ⟨_, Spec.Step.tpushRefused s (room_refused hg.wf habs hcp hr), ?_, hnub⟩
    have hstep : step cfg (VOp.tpush.toOp v ty) w =
        (logDrop d.hasDrop w.created { w.bump with fault := none }, .panic m) := by
      simp only [VOp.toOp, step, WM.bind_apply, getVec_ok w v d hv hl, fresh, WM.pure_apply, hb, getVec_ok w.bump v d hvb hl,
        pushUnchecked, WM.onUnwind, vecOp, hr, WM.lift, valDrop, dropElem, WM.modify_apply]
      cases d.hasDrop <;> simp [tick, logDrop, WM.pure_apply]
    rw [hstep] at hinv' ⊢
    exact Rel.mk' (bg := bg) hinv' (by frame_tac hbg) rfl d (by simpa [logDrop] using hvb) hl hty habs (by simp [logDrop, World.bump, hn]) hcp hbk
  | ub m =>
    have := reserveOne_notUb d
    rw [hr] at this; exact this.elim

/-- the shared part of `insert` / typed `insert`: what `insert_unchecked` of a fresh wrapper does -/
theorem insert_core (v ty i : Nat) (w : World) (s : Spec) (d : VecSt) (hinv : w.Inv) (hf : w.fault = none)
    (hv : w.vecs[v]? = some d) (hl : d.live = true) (hty : d.ty = ty) (habs : d.abs = s.items.map Cell.val)
    (hcp : d.cap = s.cap) (hbk : VecSt.resizable d.bk = !s.fixed ∧ d.cloneable = s.cloneable)
    (hbg : ∀ u, u ≠ v → w.vecs[u]? = bg u)
    (hn : w.created = s.next) (hinv' : (insertUnchecked v i (.wrapper w.created ty) w.bump).1.Inv) :
    ∃ s', ((∃ c, s' = { s with items := s.items.insertIdx i s.next, next := s.next + 1, cap := c } ∧
              i ≤ s.items.length ∧ s.Room (some c)) ∨
           (s' = { s with next := s.next + 1 } ∧ (s.items.length < i ∨ s.Room none))) ∧
      Rel bg v ty (insertUnchecked v i (.wrapper w.created ty) w.bump).1 s' := by
  have hg := hinv.good v d hv
  have hvb : w.bump.vecs[v]? = some d := hv
  have hlen := abs_len hg.wf habs
  by_cases hi : i ≤ d.len
  · cases hr : d.reserveOne with
    | ok p =>
      obtain ⟨d1, es⟩ := p
      obtain ⟨hroom, hlen1, ha, hw1, hty1, _, _, _, hcl1, hbk1, hl1⟩ := reserveOne_spec d d1 es hg.wf hr
      have hex := insertUnchecked_plain w.bump v i w.created (.wrapper w.created ty) (Val.Plain.wrapper _ _) d d1 es hvb hl hg.wf hi hr
      refine ⟨_, Or.inl ⟨d1.cap, rfl, by omega, room_ok hg.wf habs hcp hbk.1 hr⟩, ?_⟩
      rw [hex] at hinv' ⊢
      refine Rel.mk' (bg := bg) hinv' (by frame_tac hbg) (by simpa [World.bump] using hf) (d1.insertAt i (.val w.created)) (set_get w.bump v d _ hvb)
        (by simp [VecSt.insertAt, hl1, hl]) (by simp [VecSt.insertAt, hty1, hty]) ?_ (by simp [World.bump, hn])
        (by simp [VecSt.insertAt]) (by simp [VecSt.insertAt, hbk1, hcl1, hbk])
      rw [VecSt.insertAt_abs d1 i _ hw1 (by omega), ha, habs, hn, map_insertIdx']
    | panic m =>
      refine ⟨_, Or.inr ⟨rfl, Or.inr (room_refused hg.wf habs hcp hr)⟩, ?_⟩
      have hnot : ¬ i > d.len := by omega
      have hex : insertUnchecked v i (.wrapper w.created ty) w.bump =
          (logDrop d.hasDrop w.created { w.bump with fault := none }, .panic m) := by
        simp only [insertUnchecked, WM.bind_apply, getVec_ok w.bump v d hvb hl, hnot, if_false, WM.onUnwind, vecOp, hr,
          WM.lift, valDrop, dropElem, WM.modify_apply]
        cases d.hasDrop <;> simp [tick, logDrop, WM.pure_apply]
      rw [hex] at hinv' ⊢
      exact Rel.mk' (bg := bg) hinv' (by frame_tac hbg) rfl d (by simpa [logDrop] using hvb) hl hty habs (by simp [logDrop, World.bump, hn]) hcp hbk
    | ub m =>
      have := reserveOne_notUb d
      rw [hr] at this; exact this.elim
  · refine ⟨_, Or.inr ⟨rfl, Or.inl (by omega)⟩, ?_⟩
    have hgt : i > d.len := by omega
    have hex : insertUnchecked v i (.wrapper w.created ty) w.bump =
        (logDrop d.hasDrop w.created { w.bump with fault := none }, .panic "Index out of range!") := by
      simp only [insertUnchecked, WM.bind_apply, getVec_ok w.bump v d hvb hl, hgt, if_true, WM.onUnwind, WM.panic_apply,
        valDrop, dropElem, WM.modify_apply]
      cases d.hasDrop <;> simp [tick, logDrop, WM.pure_apply]
    rw [hex] at hinv' ⊢
    exact Rel.mk' (bg := bg) hinv' (by frame_tac hbg) rfl d (by simpa [logDrop] using hvb) hl hty habs (by simp [logDrop, World.bump, hn]) hcp hbk

theorem fst_bind_pure {α β} (m : WM α) (b : β) (w : World) : ((do let _ ← m; pure b : WM β) w).1 = (m w).1 := by
  simp only [WM.bind_apply]
  cases m w with
  | mk w' r => cases r <;> rfl

theorem step_insert (cfg : Cfg) (v ty i : Nat) (w : World) (s : Spec) (h : Rel bg v ty w s) :
    ∃ s', Spec.Step s (.insert i) s' ∧ Rel bg v ty (step cfg ((VOp.insert i).toOp v ty) w).1 s' ∧
      (step cfg ((VOp.insert i).toOp v ty) w).2.notUb := by
  obtain ⟨hinv, hf, ⟨d, hv, hl, hty, habs, hcp, hbk⟩, hn, hbg⟩ := h
  have hcore : Hist.Core ((VOp.insert i).toOp v ty) := trivial
  have hvalid : Hist.Valid w.vecs ((VOp.insert i).toOp v ty) := ⟨⟨d, hv, hl⟩, by intro u j dp hh; cases hh⟩
  obtain ⟨hinv', hnub⟩ := Hist.step_inv cfg _ w hinv hcore hvalid
  have hvb : w.bump.vecs[v]? = some d := hv
  have hb : ({ w with created := w.created + 1 } : World) = w.bump := rfl
  have hfst : (step cfg ((VOp.insert i).toOp v ty) w).1 = (insertUnchecked v i (.wrapper w.created ty) w.bump).1 := by
    have : step cfg ((VOp.insert i).toOp v ty) w =
        (do let _ ← insertUnchecked v i (.wrapper w.created ty); pure [] : WM Out) w.bump := by
      simp only [VOp.toOp, step, mkVal, WM.bind_apply, fresh, WM.pure_apply, World.insert, hb, getVec_ok w.bump v d hvb hl, valTy, hty,
        ne_eq, not_true_eq_false, if_false]
    rw [this, fst_bind_pure]
  rw [hfst] at hinv' ⊢
  obtain ⟨s', hs', hrel⟩ := insert_core v ty i w s d hinv hf hv hl hty habs hcp hbk hbg hn hinv'
  refine ⟨s', ?_, hrel, hnub⟩
  rcases hs' with ⟨c, rfl, hi, hroom⟩ | ⟨rfl, hno⟩
  · exact Spec.Step.insert s i c hi hroom
  · exact Spec.Step.insertRefused s i hno

theorem step_tinsert (cfg : Cfg) (v ty i : Nat) (w : World) (s : Spec) (h : Rel bg v ty w s) :
    ∃ s', Spec.Step s (.tinsert i) s' ∧ Rel bg v ty (step cfg ((VOp.tinsert i).toOp v ty) w).1 s' ∧
      (step cfg ((VOp.tinsert i).toOp v ty) w).2.notUb := by
  obtain ⟨hinv, hf, ⟨d, hv, hl, hty, habs, hcp, hbk⟩, hn, hbg⟩ := h
  have hcore : Hist.Core ((VOp.tinsert i).toOp v ty) := trivial
  have hvalid : Hist.Valid w.vecs ((VOp.tinsert i).toOp v ty) := ⟨d, hv, hl⟩
  obtain ⟨hinv', hnub⟩ := Hist.step_inv cfg _ w hinv hcore hvalid
  have hb : ({ w with created := w.created + 1 } : World) = w.bump := rfl
  have hfst : (step cfg ((VOp.tinsert i).toOp v ty) w).1 = (insertUnchecked v i (.wrapper w.created ty) w.bump).1 := by
    have : step cfg ((VOp.tinsert i).toOp v ty) w =
        (do let _ ← insertUnchecked v i (.wrapper w.created ty); pure [] : WM Out) w.bump := by
      simp only [VOp.toOp, step, WM.bind_apply, getVec_ok w v d hv hl, fresh, WM.pure_apply, hb, hty]
    rw [this, fst_bind_pure]
  rw [hfst] at hinv' ⊢
  obtain ⟨s', hs', hrel⟩ := insert_core v ty i w s d hinv hf hv hl hty habs hcp hbk hbg hn hinv'
  refine ⟨s', ?_, hrel, hnub⟩
  rcases hs' with ⟨c, rfl, hi, hroom⟩ | ⟨rfl, hno⟩
  · exact Spec.Step.tinsert s i c hi hroom
  · exact Spec.Step.tinsertRefused s i hno

/-- a cell of the visible part is the abstract item at that index -/
theorem cell_of_abs {d : VecSt} {items : List Nat} (hg : d.Good) (habs : d.abs = items.map Cell.val) (j : Nat)
    (hj : j < d.len) : d.cells.get j = .val (items.getD j 0) := by
  have hlen := abs_len hg.wf habs
  have h1 := hg.wf.len_le
  have hget : d.abs[j]? = some (d.cells.get j) := by
    simp only [VecSt.abs, List.getElem?_take, hj, if_true]
    rw [Mem.get_eq]
    have : j < d.cells.length := by omega
    simp [this]
  rw [habs] at hget
  have hj' : j < items.length := by omega
  simp only [List.getElem?_map, List.getElem?_eq_getElem hj', Option.map_some, Option.some.injEq] at hget
  rw [← hget]
  simp [List.getD_eq_getElem?_getD, List.getElem?_eq_getElem hj']

theorem step_remove (cfg : Cfg) (v ty i : Nat) (w : World) (s : Spec) (h : Rel bg v ty w s) :
    ∃ s', Spec.Step s (.remove i) s' ∧ Rel bg v ty (step cfg ((VOp.remove i).toOp v ty) w).1 s' ∧
      (step cfg ((VOp.remove i).toOp v ty) w).2.notUb := by
  obtain ⟨hinv, hf, ⟨d, hv, hl, hty, habs, hcp, hbk⟩, hn, hbg⟩ := h
  have hcore : Hist.Core ((VOp.remove i).toOp v ty) := trivial
  have hvalid : Hist.Valid w.vecs ((VOp.remove i).toOp v ty) := ⟨⟨d, hv, hl⟩, trivial⟩
  obtain ⟨hinv', hnub⟩ := Hist.step_inv cfg _ w hinv hcore hvalid
  have hg := hinv.good v d hv
  have hlen := abs_len hg.wf habs
  by_cases hi : i < d.len
  · have hc := cell_of_abs hg habs i hi
    have hex := remove_drop_exec cfg w v i _ d hv hl hg.wf hi hc hf
    refine ⟨{ s with items := s.items.eraseIdx i }, Spec.Step.remove s i (by omega), ?_, hnub⟩
    simp only [VOp.toOp] at hinv' ⊢
    rw [hex] at hinv' ⊢
    refine Rel.mk' (bg := bg) hinv' (by frame_tac hbg) (by simpa [logDrop] using hf) (d.removeAt i) (by simpa [logDrop] using set_get w v d _ hv)
      (by simp [VecSt.removeAt, hl]) (by simp [VecSt.removeAt, hty]) ?_ (by simp [logDrop, hn])
      (by simp [VecSt.removeAt, hcp]) (by simp [VecSt.removeAt, hbk])
    rw [VecSt.removeAt_abs d i hg.wf hi, habs, map_eraseIdx']
  · refine ⟨s, Spec.Step.removeOut s i (by omega), ?_, hnub⟩
    have hex : step cfg ((VOp.remove i).toOp v ty) w = ({ w with fault := none }, .panic "Index out of range!") := by
      simp only [VOp.toOp, step, WM.bind_apply, getVec_ok w v d hv hl, hi, if_false, WM.panic_apply]
    rw [hex] at hinv' ⊢
    exact Rel.mk' (bg := bg) hinv' (by frame_tac hbg) rfl d hv hl hty habs hn hcp hbk

theorem step_swapRemove (cfg : Cfg) (v ty i : Nat) (w : World) (s : Spec) (h : Rel bg v ty w s) :
    ∃ s', Spec.Step s (.swapRemove i) s' ∧ Rel bg v ty (step cfg ((VOp.swapRemove i).toOp v ty) w).1 s' ∧
      (step cfg ((VOp.swapRemove i).toOp v ty) w).2.notUb := by
  obtain ⟨hinv, hf, ⟨d, hv, hl, hty, habs, hcp, hbk⟩, hn, hbg⟩ := h
  have hcore : Hist.Core ((VOp.swapRemove i).toOp v ty) := trivial
  have hvalid : Hist.Valid w.vecs ((VOp.swapRemove i).toOp v ty) := ⟨⟨d, hv, hl⟩, trivial⟩
  obtain ⟨hinv', hnub⟩ := Hist.step_inv cfg _ w hinv hcore hvalid
  have hg := hinv.good v d hv
  have hlen := abs_len hg.wf habs
  by_cases hi : i < d.len
  · have hc := cell_of_abs hg habs i hi
    have hex := swap_remove_drop_exec cfg w v i _ d hv hl hg.wf hi hc hf
    refine ⟨_, Spec.Step.swapRemove s i (by omega), ?_, hnub⟩
    simp only [VOp.toOp] at hinv' ⊢
    rw [hex] at hinv' ⊢
    refine Rel.mk' (bg := bg) hinv' (by frame_tac hbg) (by simpa [logDrop] using hf) (d.swapRemoveAt i) (by simpa [logDrop] using set_get w v d _ hv)
      (by simp [VecSt.swapRemoveAt, hl]) (by simp [VecSt.swapRemoveAt, hty]) ?_ (by simp [logDrop, hn])
      (by simp [VecSt.swapRemoveAt, hcp]) (by simp [VecSt.swapRemoveAt, hbk])
    rw [VecSt.swapRemoveAt_abs d i hg.wf hi, habs, cell_of_abs hg habs (d.len - 1) (by omega), hlen]
    simp [List.map_take, List.map_set]
  · refine ⟨s, Spec.Step.swapRemoveOut s i (by omega), ?_, hnub⟩
    have hex : step cfg ((VOp.swapRemove i).toOp v ty) w = ({ w with fault := none }, .panic "Index out of range!") := by
      simp only [VOp.toOp, step, WM.bind_apply, getVec_ok w v d hv hl, hi, if_false, WM.panic_apply]
    rw [hex] at hinv' ⊢
    exact Rel.mk' (bg := bg) hinv' (by frame_tac hbg) rfl d hv hl hty habs hn hcp hbk

theorem step_pop (cfg : Cfg) (v ty : Nat) (w : World) (s : Spec) (h : Rel bg v ty w s) :
    ∃ s', Spec.Step s .pop s' ∧ Rel bg v ty (step cfg (VOp.pop.toOp v ty) w).1 s' ∧
      (step cfg (VOp.pop.toOp v ty) w).2.notUb := by
  obtain ⟨hinv, hf, ⟨d, hv, hl, hty, habs, hcp, hbk⟩, hn, hbg⟩ := h
  have hcore : Hist.Core (VOp.pop.toOp v ty) := trivial
  have hvalid : Hist.Valid w.vecs (VOp.pop.toOp v ty) := ⟨⟨d, hv, hl⟩, trivial⟩
  obtain ⟨hinv', hnub⟩ := Hist.step_inv cfg _ w hinv hcore hvalid
  have hg := hinv.good v d hv
  have hlen := abs_len hg.wf habs
  refine ⟨_, Spec.Step.pop s, ?_, hnub⟩
  by_cases h0 : d.len = 0
  · have hex : step cfg (VOp.pop.toOp v ty) w = (w, .ok ["N"]) := by
      simp only [VOp.toOp, step, WM.bind_apply, getVec_ok w v d hv hl, h0, if_true, WM.pure_apply]
    rw [hex]
    have : s.items = [] := by cases hs : s.items with
      | nil => rfl
      | cons x xs => rw [hs] at hlen; simp at hlen; omega
    exact Rel.mk' (bg := bg) hinv (by frame_tac hbg) hf d hv hl hty (by rw [habs, this]; rfl) hn hcp hbk
  · have hc := cell_of_abs hg habs (d.len - 1) (by omega)
    have hex := pop_drop_exec cfg w v _ d hv hl hg.wf h0 hc hf
    simp only [VOp.toOp] at hinv' ⊢
    rw [hex] at hinv' ⊢
    refine Rel.mk' (bg := bg) hinv' (by frame_tac hbg) (by simpa [logDrop] using hf) { d with len := d.len - 1 } (by simpa [logDrop] using set_get w v d _ hv)
      hl hty ?_ (by simp [logDrop, hn]) hcp hbk
    have h1 := hg.wf.len_le
    have : ({ d with len := d.len - 1 } : VecSt).abs = d.abs.take (d.len - 1) := by
      simp only [VecSt.abs, List.take_take]
      congr 1; omega
    rw [this, habs, hlen, List.map_take]

theorem step_clear (cfg : Cfg) (v ty : Nat) (w : World) (s : Spec) (h : Rel bg v ty w s) :
    ∃ s', Spec.Step s .clear s' ∧ Rel bg v ty (step cfg (VOp.clear.toOp v ty) w).1 s' ∧
      (step cfg (VOp.clear.toOp v ty) w).2.notUb := by
  obtain ⟨hinv, hf, ⟨d, hv, hl, hty, habs, hcp, hbk⟩, hn, hbg⟩ := h
  have hcore : Hist.Core (VOp.clear.toOp v ty) := trivial
  have hvalid : Hist.Valid w.vecs (VOp.clear.toOp v ty) := ⟨d, hv, hl⟩
  obtain ⟨hinv', hnub⟩ := Hist.step_inv cfg _ w hinv hcore hvalid
  have hg := hinv.good v d hv
  have hex := clear_exec cfg w v d hv hl hg.wf hg.init hf
  refine ⟨_, Spec.Step.clear s, ?_, hnub⟩
  simp only [VOp.toOp] at hinv' ⊢
  rw [hex] at hinv' ⊢
  have hlt : v < w.vecs.length := (List.getElem?_eq_some_iff.mp hv).1
  refine Rel.mk' (bg := bg) hinv' (by frame_tac hbg) (by simpa using hf) { d with len := 0 } (by simp [World.upd, hlt]) hl hty (by simp [VecSt.abs])
    (by simp [hn]) hcp hbk

theorem step_drain (cfg : Cfg) (v ty a b : Nat) (cs : List End) (w : World) (s : Spec) (h : Rel bg v ty w s) :
    ∃ s', Spec.Step s (.drain a b cs) s' ∧ Rel bg v ty (step cfg ((VOp.drain a b cs).toOp v ty) w).1 s' ∧
      (step cfg ((VOp.drain a b cs).toOp v ty) w).2.notUb := by
  obtain ⟨hinv, hf, ⟨d, hv, hl, hty, habs, hcp, hbk⟩, hn, hbg⟩ := h
  have hcore : Hist.Core ((VOp.drain a b cs).toOp v ty) := trivial
  have hvalid : Hist.Valid w.vecs ((VOp.drain a b cs).toOp v ty) := by
    refine ⟨⟨d, hv, hl⟩, ?_⟩
    intro p hp
    obtain ⟨e, _, rfl⟩ := List.mem_map.mp hp
    trivial
  obtain ⟨hinv', hnub⟩ := Hist.step_inv cfg _ w hinv hcore hvalid
  have hg := hinv.good v d hv
  have hlen := abs_len hg.wf habs
  have h1 := hg.wf.len_le; have h2 := hg.wf.cells_le
  have hlt : v < w.vecs.length := (List.getElem?_eq_some_iff.mp hv).1
  by_cases hr : a ≤ b ∧ b ≤ d.len
  · obtain ⟨hab, hbl⟩ := hr
    have hir : intoRange d.len (.incl a) (.excl b) = .ok (a, b) := by
      simp [intoRange, rangeStart, rangeEnd, hab, hbl]
    let d0 : VecSt := { d with len := a }
    let it : RangeIt := { v := v, typed := false, start := a, end0 := b, origLen := d.len, index := a, end_ := b }
    have hv0 : (w.upd v d0).vecs[v]? = some d0 := World.upd_get w v d0 hlt
    have hinitAll : ∀ j, a ≤ j → j < b → ∃ id, d0.cells.get j = .val id := by
      intro j _ hj
      simpa using hg.init j (by omega)
    obtain ⟨ids, it', out', heat, e1, e2, e3, e4, e5, e6, e7, e8⟩ :=
      eatLoop_drops cfg drainDrop v d0 hl a b (by show b ≤ d.cap; omega) hinitAll cs it [toString (b - a)] (w.upd v d0)
        rfl rfl hv0 (by simpa using hf) (Nat.le_refl _) hab (Nat.le_refl _)
    let W1 : World := logDrops d0.hasDrop ids (w.upd v d0)
    have hv1 : W1.vecs[it'.v]? = some d0 := by rw [e1]; simpa [W1] using hv0
    have hinit : d0.InitRange it'.index (it'.end_ - it'.index) := by
      intro j hj
      have hq6 : a ≤ it'.index := e6
      have hq8 : it'.end_ ≤ b := e8
      have := hg.init (it'.index + j) (by omega)
      simpa using this
    have hex := drainDrop_exec W1 it' d0 hv1 hl (by simpa [W1] using hf) (by rw [e3]; exact e6) e7
      (by rw [e4]; exact e8) (by rw [e4, e5]; exact hbl) (by rw [e5]; exact h1) h2 hinit
    have hstep : step cfg ((VOp.drain a b cs).toOp v ty) w =
        ((logDrops d0.hasDrop (d0.idsRange it'.index (it'.end_ - it'.index)) W1).upd v (d0.drainClose a b d.len), .ok out') := by
      simp only [VOp.toOp, step, drain, WM.bind_apply, getVec_ok w v d hv hl, hir, WM.lift_ok, setLen, setVec_apply]
      rw [show eatLoop cfg drainDrop { v := v, typed := false, start := a, end0 := b, origLen := d.len, index := a, end_ := b }
            (cs.map fun e => (e, Sink.drop)) [toString (b - a)] (w.upd v { d with len := a }) = _ from heat]
      have hex' : drainDrop it' (logDrops d0.hasDrop ids (w.upd v d0)) = _ := hex
      simp only [hex', e1, e3, e4, e5]
      rfl
    refine ⟨_, Spec.Step.drain s a b cs ⟨hab, by omega⟩, ?_, hnub⟩
    rw [hstep] at hinv' ⊢
    refine Rel.mk' (bg := bg) hinv' ?_ (by simpa [W1] using hf) (d0.drainClose a b d.len)
      (by simp [World.upd, W1, hlt]) hl hty ?_ (by simp [W1, hn])
      (by simp [VecSt.drainClose, d0, hcp]) (by simp [VecSt.drainClose, d0, hbk])
    · intro u hu
      have := hbg u hu
      simp [World.upd, W1, List.getElem?_set, Ne.symm hu, this]
    rw [VecSt.drainClose_abs d0 a b d.len hab hbl h1]
    have : d.cells.take d.len = s.items.map Cell.val := habs
    show d.cells.take a ++ (d.cells.take d.len).drop b = _
    have hta : d.cells.take a = (d.cells.take d.len).take a := by rw [List.take_take]; congr 1; omega
    rw [hta, this, List.map_append, List.map_take, List.map_drop]
  · have hex : step cfg ((VOp.drain a b cs).toOp v ty) w =
        ({ w with fault := none }, .panic (if a ≤ b then "assertion failed: end <= len" else "assertion failed: start <= end")) := by
      simp only [VOp.toOp, step, drain, WM.bind_apply, getVec_ok w v d hv hl, intoRange, rangeStart, rangeEnd]
      by_cases hab : a ≤ b
      · have : ¬ b ≤ d.len := fun hb => hr ⟨hab, hb⟩
        simp [hab, this, WM.lift]
      · simp [hab, WM.lift]
    refine ⟨s, Spec.Step.drainOut s a b cs (by omega), ?_, hnub⟩
    rw [hex] at hinv' ⊢
    exact Rel.mk' (bg := bg) hinv' (by frame_tac hbg) rfl d hv hl hty habs hn hcp hbk

/-- typed `remove(i)` with `i < len`: the element leaves into the caller's hands, nothing is destroyed -/
theorem tremove_exec (cfg : Cfg) (w : World) (v i id : Nat) (d : VecSt)
    (hv : w.vecs[v]? = some d) (hl : d.live = true) (hwf : d.WF) (hi : i < d.len)
    (hc : d.cells.get i = .val id) :
    step cfg (.tremove v i) w =
      ({ w with vecs := w.vecs.set v (d.removeAt i), held := id :: w.held }, .ok [cfg.tok id]) := by
  have hlt : v < w.vecs.length := (List.getElem?_eq_some_iff.mp hv).1
  have hd : w.vecs[v] = d := (List.getElem?_eq_some_iff.mp hv).2
  have h1 := hwf.len_le; have h2 := hwf.cells_le
  have hb1 : i < d.cap := by omega
  have hb2 : i + 1 + (d.len - 1 - i) ≤ d.cap := by omega
  have hb3 : i + (d.len - 1 - i) ≤ d.cap := by omega
  simp [step, getVec, hl, hi, hlt, hd, setLen, sinkHandle, hSlot, readElem, VecSt.readElem_ok, hb1, hc,
    hConsume, moveElems, VecSt.moveElems_ok, hb2, hb3, World.upd, VecSt.removeAt, hold]

theorem tswap_remove_exec (cfg : Cfg) (w : World) (v i id : Nat) (d : VecSt)
    (hv : w.vecs[v]? = some d) (hl : d.live = true) (hwf : d.WF) (hi : i < d.len)
    (hc : d.cells.get i = .val id) :
    step cfg (.tswapRemove v i) w =
      ({ w with vecs := w.vecs.set v (d.swapRemoveAt i), held := id :: w.held }, .ok [cfg.tok id]) := by
  have hlt : v < w.vecs.length := (List.getElem?_eq_some_iff.mp hv).1
  have hd : w.vecs[v] = d := (List.getElem?_eq_some_iff.mp hv).2
  have h1 := hwf.len_le; have h2 := hwf.cells_le
  have hb1 : i < d.cap := by omega
  have hb2 : d.len - 1 < d.cap := by omega
  have e1 : d.cells.ensure (i + 1) = d.cells := ensure_of_le _ _ (by omega)
  by_cases hlast : i = d.len - 1
  · have hi' : d.len - 1 < d.len := by omega
    have hc' : d.cells.get (d.len - 1) = .val id := by rw [← hlast]; exact hc
    simp [step, getVec, hl, hi', hlt, hd, setLen, sinkHandle, hSlot, readElem, VecSt.readElem_ok, hb2, hc',
      hConsume, World.upd, VecSt.swapRemoveAt, hlast, hold]
  · simp [step, getVec, hl, hi, hlt, hd, setLen, sinkHandle, hSlot, readElem, VecSt.readElem_ok, hb1, hc,
      hConsume, World.upd, VecSt.swapRemoveAt, hlast, World.writeCell, VecSt.writeCell_ok, hb2, e1, hold]

theorem tpop_exec (cfg : Cfg) (w : World) (v id : Nat) (d : VecSt)
    (hv : w.vecs[v]? = some d) (hl : d.live = true) (hwf : d.WF) (hne : d.len ≠ 0)
    (hc : d.cells.get (d.len - 1) = .val id) :
    step cfg (.tpop v) w =
      ({ w with vecs := w.vecs.set v { d with len := d.len - 1 }, held := id :: w.held }, .ok [cfg.tok id]) := by
  have hlt : v < w.vecs.length := (List.getElem?_eq_some_iff.mp hv).1
  have hd : w.vecs[v] = d := (List.getElem?_eq_some_iff.mp hv).2
  have h1 := hwf.len_le; have h2 := hwf.cells_le
  have hb1 : d.len - 1 < d.cap := by omega
  simp [step, getVec, hl, hne, hlt, hd, setLen, sinkHandle, hSlot, readElem, VecSt.readElem_ok, hb1, hc,
    hConsume, World.upd, hold]

theorem step_tremove (cfg : Cfg) (v ty i : Nat) (w : World) (s : Spec) (h : Rel bg v ty w s) :
    ∃ s', Spec.Step s (.tremove i) s' ∧ Rel bg v ty (step cfg ((VOp.tremove i).toOp v ty) w).1 s' ∧
      (step cfg ((VOp.tremove i).toOp v ty) w).2.notUb := by
  obtain ⟨hinv, hf, ⟨d, hv, hl, hty, habs, hcp, hbk⟩, hn, hbg⟩ := h
  have hcore : Hist.Core ((VOp.tremove i).toOp v ty) := trivial
  have hvalid : Hist.Valid w.vecs ((VOp.tremove i).toOp v ty) := ⟨d, hv, hl⟩
  obtain ⟨hinv', hnub⟩ := Hist.step_inv cfg _ w hinv hcore hvalid
  have hg := hinv.good v d hv
  have hlen := abs_len hg.wf habs
  by_cases hi : i < d.len
  · have hc := cell_of_abs hg habs i hi
    have hex := tremove_exec cfg w v i _ d hv hl hg.wf hi hc
    refine ⟨{ s with items := s.items.eraseIdx i }, Spec.Step.tremove s i (by omega), ?_, hnub⟩
    simp only [VOp.toOp] at hinv' ⊢
    rw [hex] at hinv' ⊢
    refine Rel.mk' (bg := bg) hinv' (by frame_tac hbg) hf (d.removeAt i) (set_get w v d _ hv)
      (by simp [VecSt.removeAt, hl]) (by simp [VecSt.removeAt, hty]) ?_ hn
      (by simp [VecSt.removeAt, hcp]) (by simp [VecSt.removeAt, hbk])
    rw [VecSt.removeAt_abs d i hg.wf hi, habs, map_eraseIdx']
  · refine ⟨s, Spec.Step.tremoveOut s i (by omega), ?_, hnub⟩
    have hex : step cfg ((VOp.tremove i).toOp v ty) w = ({ w with fault := none }, .panic "Index out of range!") := by
      simp only [VOp.toOp, step, WM.bind_apply, getVec_ok w v d hv hl, hi, if_false, WM.panic_apply]
    rw [hex] at hinv' ⊢
    exact Rel.mk' (bg := bg) hinv' (by frame_tac hbg) rfl d hv hl hty habs hn hcp hbk

theorem step_tswapRemove (cfg : Cfg) (v ty i : Nat) (w : World) (s : Spec) (h : Rel bg v ty w s) :
    ∃ s', Spec.Step s (.tswapRemove i) s' ∧ Rel bg v ty (step cfg ((VOp.tswapRemove i).toOp v ty) w).1 s' ∧
      (step cfg ((VOp.tswapRemove i).toOp v ty) w).2.notUb := by
  obtain ⟨hinv, hf, ⟨d, hv, hl, hty, habs, hcp, hbk⟩, hn, hbg⟩ := h
  have hcore : Hist.Core ((VOp.tswapRemove i).toOp v ty) := trivial
  have hvalid : Hist.Valid w.vecs ((VOp.tswapRemove i).toOp v ty) := ⟨d, hv, hl⟩
  obtain ⟨hinv', hnub⟩ := Hist.step_inv cfg _ w hinv hcore hvalid
  have hg := hinv.good v d hv
  have hlen := abs_len hg.wf habs
  by_cases hi : i < d.len
  · have hc := cell_of_abs hg habs i hi
    have hex := tswap_remove_exec cfg w v i _ d hv hl hg.wf hi hc
    refine ⟨_, Spec.Step.tswapRemove s i (by omega), ?_, hnub⟩
    simp only [VOp.toOp] at hinv' ⊢
    rw [hex] at hinv' ⊢
    refine Rel.mk' (bg := bg) hinv' (by frame_tac hbg) hf (d.swapRemoveAt i) (set_get w v d _ hv)
      (by simp [VecSt.swapRemoveAt, hl]) (by simp [VecSt.swapRemoveAt, hty]) ?_ hn
      (by simp [VecSt.swapRemoveAt, hcp]) (by simp [VecSt.swapRemoveAt, hbk])
    rw [VecSt.swapRemoveAt_abs d i hg.wf hi, habs, cell_of_abs hg habs (d.len - 1) (by omega), hlen]
    simp [List.map_take, List.map_set]
  · refine ⟨s, Spec.Step.tswapRemoveOut s i (by omega), ?_, hnub⟩
    have hex : step cfg ((VOp.tswapRemove i).toOp v ty) w = ({ w with fault := none }, .panic "Index out of range!") := by
      simp only [VOp.toOp, step, WM.bind_apply, getVec_ok w v d hv hl, hi, if_false, WM.panic_apply]
    rw [hex] at hinv' ⊢
    exact Rel.mk' (bg := bg) hinv' (by frame_tac hbg) rfl d hv hl hty habs hn hcp hbk

theorem step_tpop (cfg : Cfg) (v ty : Nat) (w : World) (s : Spec) (h : Rel bg v ty w s) :
    ∃ s', Spec.Step s .tpop s' ∧ Rel bg v ty (step cfg (VOp.tpop.toOp v ty) w).1 s' ∧
      (step cfg (VOp.tpop.toOp v ty) w).2.notUb := by
  obtain ⟨hinv, hf, ⟨d, hv, hl, hty, habs, hcp, hbk⟩, hn, hbg⟩ := h
  have hcore : Hist.Core (VOp.tpop.toOp v ty) := trivial
  have hvalid : Hist.Valid w.vecs (VOp.tpop.toOp v ty) := ⟨d, hv, hl⟩
  obtain ⟨hinv', hnub⟩ := Hist.step_inv cfg _ w hinv hcore hvalid
  have hg := hinv.good v d hv
  have hlen := abs_len hg.wf habs
  refine ⟨_, Spec.Step.tpop s, ?_, hnub⟩
  by_cases h0 : d.len = 0
  · have hex : step cfg (VOp.tpop.toOp v ty) w = (w, .ok ["N"]) := by
      simp only [VOp.toOp, step, WM.bind_apply, getVec_ok w v d hv hl, h0, if_true, WM.pure_apply]
    rw [hex]
    have : s.items = [] := by cases hs : s.items with
      | nil => rfl
      | cons x xs => rw [hs] at hlen; simp at hlen; omega
    exact Rel.mk' (bg := bg) hinv (by frame_tac hbg) hf d hv hl hty (by rw [habs, this]; rfl) hn hcp hbk
  · have hc := cell_of_abs hg habs (d.len - 1) (by omega)
    have hex := tpop_exec cfg w v _ d hv hl hg.wf h0 hc
    simp only [VOp.toOp] at hinv' ⊢
    rw [hex] at hinv' ⊢
    refine Rel.mk' (bg := bg) hinv' (by frame_tac hbg) hf { d with len := d.len - 1 } (set_get w v d _ hv) hl hty ?_ hn hcp hbk
    have h1 := hg.wf.len_le
    have : ({ d with len := d.len - 1 } : VecSt).abs = d.abs.take (d.len - 1) := by
      simp only [VecSt.abs, List.take_take]
      congr 1; omega
    rw [this, habs, hlen, List.map_take]

/-- a capacity request on `v` (`vecOp`): the items, type, storage kind stay; what the request does to the capacity is
the caller's business -/
theorem step_capOp (cfg : Cfg) (v ty : Nat) (w : World) (s : Spec) (h : Rel bg v ty w s) (op : VOp)
    (f : VecSt → Res (VecSt × List Event))
    (hop : step cfg (op.toOp v ty) w = (do vecOp v f; pure [] : WM Out) w)
    (hcore : Hist.Core (op.toOp v ty))
    (hvalid : ∀ d, w.vecs[v]? = some d → d.live = true → VecSt.resizable d.bk = !s.fixed → Hist.Valid w.vecs (op.toOp v ty))
    (hok : ∀ d d' es, d.WF → s.items.length = d.len → d.cap = s.cap → VecSt.resizable d.bk = !s.fixed →
      f d = .ok (d', es) →
      d'.abs = d.abs ∧ d'.ty = d.ty ∧ d'.bk = d.bk ∧ d'.cloneable = d.cloneable ∧ d'.live = d.live ∧
        Spec.Step s op { s with cap := d'.cap })
    (hpanic : ∀ d m, d.WF → s.items.length = d.len → d.cap = s.cap → VecSt.resizable d.bk = !s.fixed →
      f d = .panic m → Spec.Step s op s) :
    ∃ s', Spec.Step s op s' ∧ Rel bg v ty (step cfg (op.toOp v ty) w).1 s' ∧ (step cfg (op.toOp v ty) w).2.notUb := by
  obtain ⟨hinv, hf, ⟨d, hv, hl, hty, habs, hcp, hbk⟩, hn, hbg⟩ := h
  obtain ⟨hinv', hnub⟩ := Hist.step_inv cfg _ w hinv hcore (hvalid d hv hl hbk.1)
  have hg := hinv.good v d hv
  have hlen := abs_len hg.wf habs
  have hlt : v < w.vecs.length := (List.getElem?_eq_some_iff.mp hv).1
  cases hfd : f d with
  | ok p =>
    obtain ⟨d', es⟩ := p
    obtain ⟨ha, hty', hbk', hcl', hl', hstep⟩ := hok d d' es hg.wf hlen hcp hbk.1 hfd
    have hex : step cfg (op.toOp v ty) w = ({ (w.upd v d') with ev := es.reverse ++ w.ev }, .ok []) := by
      rw [hop]
      simp only [WM.bind_apply, vecOp, getVec_ok w v d hv hl, hfd, WM.lift, setVec_apply, emit, WM.modify_apply,
        WM.pure_apply]
      rfl
    refine ⟨_, hstep, ?_, hnub⟩
    rw [hex] at hinv' ⊢
    exact Rel.mk' (bg := bg) hinv' (by frame_tac hbg) hf d' (by simp [World.upd, hlt]) (by rw [hl', hl]) (by rw [hty', hty]) (by rw [ha, habs]) hn rfl
      (by rw [hbk', hcl']; exact hbk)
  | panic m =>
    have hex : step cfg (op.toOp v ty) w = ({ w with fault := none }, .panic m) := by
      rw [hop]
      simp only [WM.bind_apply, vecOp_panic w v d f m hv hl hfd]
    refine ⟨s, hpanic d m hg.wf hlen hcp hbk.1 hfd, ?_, hnub⟩
    rw [hex] at hinv' ⊢
    exact Rel.mk' (bg := bg) hinv' (by frame_tac hbg) rfl d hv hl hty habs hn hcp hbk
  | ub m =>
    have hex : step cfg (op.toOp v ty) w = (w, .ub m) := by
      rw [hop]
      simp only [WM.bind_apply, vecOp, getVec_ok w v d hv hl, hfd, WM.lift]
    rw [hex] at hnub
    exact hnub.elim

theorem resizable_of_not_fixed {d : VecSt} {s : Spec} (hbk : VecSt.resizable d.bk = !s.fixed) (hfx : s.fixed = false) :
    VecSt.resizable d.bk = true := by rw [hbk, hfx]; rfl

theorem step_reserve (cfg : Cfg) (v ty n : Nat) (w : World) (s : Spec) (h : Rel bg v ty w s) :
    ∃ s', Spec.Step s (.reserve n) s' ∧ Rel bg v ty (step cfg ((VOp.reserve n).toOp v ty) w).1 s' ∧
      (step cfg ((VOp.reserve n).toOp v ty) w).2.notUb := by
  refine step_capOp cfg v ty w s h (.reserve n) (fun x => x.reserve n) rfl trivial
    (fun d hv hl _ => ⟨d, hv, hl⟩) ?_ ?_
  · intro d d' es hwf hlen hcp hbk hfd
    have hlc := hwf.len_le_cap
    unfold VecSt.reserve at hfd
    cases hca : checkedAdd d.len n with
    | ok r =>
      obtain ⟨hr, _⟩ := checkedAdd_ok _ _ _ hca
      rw [hca] at hfd
      simp only at hfd
      split at hfd
      · rename_i hlt
        obtain ⟨hc, _, ha, _, hty', _, _, _, hcl', hbk', hlv'⟩ := memExpand_spec d d' _ es hwf hfd
        have hrz := memExpand_resizable d d' _ es hfd
        refine ⟨ha, hty', hbk', hcl', hlv', Spec.Step.reserveGrow s n d'.cap (by omega) ?_ (by omega)⟩
        rw [hrz] at hbk; cases hfx : s.fixed <;> simp [hfx] at hbk ⊢
      · rename_i hnlt
        cases hfd
        have : ({ s with cap := d.cap } : Spec) = s := by rw [hcp]
        rw [this]
        exact ⟨rfl, rfl, rfl, rfl, rfl, Spec.Step.reserveFits s n (by omega)⟩
    | panic m => rw [hca] at hfd; cases hfd
    | ub m => rw [hca] at hfd; cases hfd
  · intro d m hwf hlen hcp hbk hfd
    have hlc := hwf.len_le_cap
    by_cases hfit : s.items.length + n ≤ s.cap
    · -- a request that fits never panics ... unless `len + n` is not representable
      unfold VecSt.reserve at hfd
      cases hca : checkedAdd d.len n with
      | ok r =>
        obtain ⟨hr, _⟩ := checkedAdd_ok _ _ _ hca
        rw [hca] at hfd
        have : ¬ d.cap < r := by omega
        simp [this] at hfd
      | panic m' => exact Spec.Step.reserveFits s n hfit
      | ub m' => rw [hca] at hfd; cases hfd
    · exact Spec.Step.reserveRefused s n (by omega)

theorem step_reserveExact (cfg : Cfg) (v ty n : Nat) (w : World) (s : Spec) (h : Rel bg v ty w s) (hfx : s.fixed = false) :
    ∃ s', Spec.Step s (.reserveExact n) s' ∧ Rel bg v ty (step cfg ((VOp.reserveExact n).toOp v ty) w).1 s' ∧
      (step cfg ((VOp.reserveExact n).toOp v ty) w).2.notUb := by
  refine step_capOp cfg v ty w s h (.reserveExact n) (fun x => x.reserveExact n) rfl trivial
    (fun d hv hl hbk => ⟨d, hv, hl, resizable_of_not_fixed hbk hfx⟩) ?_ ?_
  · intro d d' es hwf hlen hcp hbk hfd
    have hlc := hwf.len_le_cap
    unfold VecSt.reserveExact at hfd
    cases hca : checkedAdd d.len n with
    | ok r =>
      obtain ⟨hr, _⟩ := checkedAdd_ok _ _ _ hca
      rw [hca] at hfd
      simp only at hfd
      split at hfd
      · rename_i hlt
        unfold VecSt.memExpandExact at hfd
        obtain ⟨hc, _, ha, _, hty', _, _, _, hcl', hbk', hlv'⟩ := memResize_spec d d' _ es hwf (by omega) hfd
        refine ⟨ha, hty', hbk', hcl', hlv', ?_⟩
        have : d'.cap = s.items.length + n := by omega
        rw [this]
        exact Spec.Step.reserveExactGrow s n (by omega)
      · rename_i hnlt
        cases hfd
        have : ({ s with cap := d.cap } : Spec) = s := by rw [hcp]
        rw [this]
        exact ⟨rfl, rfl, rfl, rfl, rfl, Spec.Step.reserveExactFits s n (by omega)⟩
    | panic m => rw [hca] at hfd; cases hfd
    | ub m => rw [hca] at hfd; cases hfd
  · intro d m hwf hlen hcp hbk hfd
    have hlc := hwf.len_le_cap
    by_cases hfit : s.items.length + n ≤ s.cap
    · exact Spec.Step.reserveExactFits s n hfit
    · exact Spec.Step.reserveExactRefused s n (by omega)

theorem step_shrinkToFit (cfg : Cfg) (v ty : Nat) (w : World) (s : Spec) (h : Rel bg v ty w s) (hfx : s.fixed = false) :
    ∃ s', Spec.Step s .shrinkToFit s' ∧ Rel bg v ty (step cfg (VOp.shrinkToFit.toOp v ty) w).1 s' ∧
      (step cfg (VOp.shrinkToFit.toOp v ty) w).2.notUb := by
  refine step_capOp cfg v ty w s h .shrinkToFit VecSt.shrinkToFit rfl trivial
    (fun d hv hl hbk => ⟨d, hv, hl, resizable_of_not_fixed hbk hfx⟩) ?_ ?_
  · intro d d' es hwf hlen hcp hbk hfd
    unfold VecSt.shrinkToFit at hfd
    obtain ⟨hc, _, ha, _, hty', _, _, _, hcl', hbk', hlv'⟩ := memResize_spec d d' _ es hwf (Nat.le_refl _) hfd
    refine ⟨ha, hty', hbk', hcl', hlv', ?_⟩
    rw [hc, ← hlen]
    exact Spec.Step.shrinkToFit s
  · intro d m _ _ _ _ _
    exact Spec.Step.shrinkToFitRefused s

theorem step_shrinkTo (cfg : Cfg) (v ty n : Nat) (w : World) (s : Spec) (h : Rel bg v ty w s) (hfx : s.fixed = false) :
    ∃ s', Spec.Step s (.shrinkTo n) s' ∧ Rel bg v ty (step cfg ((VOp.shrinkTo n).toOp v ty) w).1 s' ∧
      (step cfg ((VOp.shrinkTo n).toOp v ty) w).2.notUb := by
  refine step_capOp cfg v ty w s h (.shrinkTo n) (fun x => x.shrinkTo n) rfl trivial
    (fun d hv hl hbk => ⟨d, hv, hl, resizable_of_not_fixed hbk hfx⟩) ?_ ?_
  · intro d d' es hwf hlen hcp hbk hfd
    have hlc := hwf.len_le_cap
    unfold VecSt.shrinkTo at hfd
    obtain ⟨hc, _, ha, _, hty', _, _, _, hcl', hbk', hlv'⟩ := memResize_spec d d' _ es hwf (by omega) hfd
    refine ⟨ha, hty', hbk', hcl', hlv', ?_⟩
    rw [hc, hcp, ← hlen]
    exact Spec.Step.shrinkTo s n
  · intro d m _ _ _ _ _
    exact Spec.Step.shrinkToRefused s n

/-- typed `swap(i, j)` in range: the two cells change places -/
theorem tswap_exec (cfg : Cfg) (w : World) (v i j : Nat) (d : VecSt)
    (hv : w.vecs[v]? = some d) (hl : d.live = true) (hwf : d.WF) (hi : i < d.len) (hj : j < d.len) :
    step cfg (.tswap v i j) w =
      (w.upd v { d with cells := (d.cells.set i (d.cells.get j)).set j (d.cells.get i) }, .ok []) := by
  have hlt : v < w.vecs.length := (List.getElem?_eq_some_iff.mp hv).1
  have hd : w.vecs[v] = d := (List.getElem?_eq_some_iff.mp hv).2
  have h1 := hwf.len_le; have h2 := hwf.cells_le
  have hb1 : i < d.cap := by omega
  have hb2 : j < d.cap := by omega
  have e1 : d.cells.ensure (i + 1) = d.cells := ensure_of_le _ _ (by omega)
  have e2 : Mem.ensure (d.cells.set i (d.cells.get j)) (j + 1) = d.cells.set i (d.cells.get j) :=
    ensure_of_le _ _ (by simp; omega)
  simp [step, getVec, hl, hi, hj, hlt, hd, World.writeCell, VecSt.writeCell_ok, hb1, hb2, e1, e2, World.upd]

theorem step_swap (cfg : Cfg) (v ty i j : Nat) (w : World) (s : Spec) (h : Rel bg v ty w s) :
    ∃ s', Spec.Step s (.swap i j) s' ∧ Rel bg v ty (step cfg ((VOp.swap i j).toOp v ty) w).1 s' ∧
      (step cfg ((VOp.swap i j).toOp v ty) w).2.notUb := by
  obtain ⟨hinv, hf, ⟨d, hv, hl, hty, habs, hcp, hbk⟩, hn, hbg⟩ := h
  have hcore : Hist.Core ((VOp.swap i j).toOp v ty) := trivial
  have hvalid : Hist.Valid w.vecs ((VOp.swap i j).toOp v ty) := ⟨d, hv, hl⟩
  obtain ⟨hinv', hnub⟩ := Hist.step_inv cfg _ w hinv hcore hvalid
  have hg := hinv.good v d hv
  have hlen := abs_len hg.wf habs
  have hlt : v < w.vecs.length := (List.getElem?_eq_some_iff.mp hv).1
  by_cases hij : i < d.len ∧ j < d.len
  · obtain ⟨hi, hj⟩ := hij
    have hex := tswap_exec cfg w v i j d hv hl hg.wf hi hj
    refine ⟨_, Spec.Step.swap s i j ⟨by omega, by omega⟩, ?_, hnub⟩
    simp only [VOp.toOp] at hinv' ⊢
    rw [hex] at hinv' ⊢
    refine Rel.mk' (bg := bg) hinv' (by frame_tac hbg) hf { d with cells := (d.cells.set i (d.cells.get j)).set j (d.cells.get i) }
      (by simp [World.upd, hlt]) hl hty ?_ hn hcp hbk
    show ((d.cells.set i (d.cells.get j)).set j (d.cells.get i)).take d.len = _
    rw [List.take_set, List.take_set]
    have : d.cells.take d.len = s.items.map Cell.val := habs
    rw [this, cell_of_abs hg habs i hi, cell_of_abs hg habs j hj]
    simp [List.map_set]
  · refine ⟨s, Spec.Step.swapOut s i j (by omega), ?_, hnub⟩
    have hex : step cfg ((VOp.swap i j).toOp v ty) w = ({ w with fault := none }, .panic "index out of bounds") := by
      simp only [VOp.toOp, step, WM.bind_apply, getVec_ok w v d hv hl, hij, if_false, WM.panic_apply]
    rw [hex] at hinv' ⊢
    exact Rel.mk' (bg := bg) hinv' (by frame_tac hbg) rfl d hv hl hty habs hn hcp hbk

/-- typed `*at_mut(i) = fresh` in range, no injected fault: the old value is destroyed, the new one sits at `i` -/
theorem tassign_exec (cfg : Cfg) (w : World) (v i id : Nat) (d : VecSt)
    (hv : w.vecs[v]? = some d) (hl : d.live = true) (hwf : d.WF) (hi : i < d.len)
    (hc : d.cells.get i = .val id) (hf : w.fault = none) :
    step cfg (.tassign v i) w =
      ({ logDrop d.hasDrop id w.bump with vecs := w.vecs.set v { d with cells := d.cells.set i (.val w.created) } }, .ok []) := by
  have hlt : v < w.vecs.length := (List.getElem?_eq_some_iff.mp hv).1
  have hd : w.vecs[v] = d := (List.getElem?_eq_some_iff.mp hv).2
  have h1 := hwf.len_le; have h2 := hwf.cells_le
  have hb1 : i < d.cap := by omega
  have e1 : d.cells.ensure (i + 1) = d.cells := ensure_of_le _ _ (by omega)
  simp [step, getVec, hl, hi, hlt, hd, fresh, readElem, VecSt.readElem_ok, hb1, hc, WM.onUnwind,
    World.dropElem_nofault, hf, World.writeCell, VecSt.writeCell_ok, e1, World.upd, logDrop, World.bump]

theorem step_assign (cfg : Cfg) (v ty i : Nat) (w : World) (s : Spec) (h : Rel bg v ty w s) :
    ∃ s', Spec.Step s (.assign i) s' ∧ Rel bg v ty (step cfg ((VOp.assign i).toOp v ty) w).1 s' ∧
      (step cfg ((VOp.assign i).toOp v ty) w).2.notUb := by
  obtain ⟨hinv, hf, ⟨d, hv, hl, hty, habs, hcp, hbk⟩, hn, hbg⟩ := h
  have hcore : Hist.Core ((VOp.assign i).toOp v ty) := trivial
  have hvalid : Hist.Valid w.vecs ((VOp.assign i).toOp v ty) := ⟨d, hv, hl⟩
  obtain ⟨hinv', hnub⟩ := Hist.step_inv cfg _ w hinv hcore hvalid
  have hg := hinv.good v d hv
  have hlen := abs_len hg.wf habs
  have hlt : v < w.vecs.length := (List.getElem?_eq_some_iff.mp hv).1
  by_cases hi : i < d.len
  · have hc := cell_of_abs hg habs i hi
    have hex := tassign_exec cfg w v i _ d hv hl hg.wf hi hc hf
    refine ⟨_, Spec.Step.assign s i (by omega), ?_, hnub⟩
    simp only [VOp.toOp] at hinv' ⊢
    rw [hex] at hinv' ⊢
    refine Rel.mk' (bg := bg) hinv' (by frame_tac hbg) (by simpa [logDrop, World.bump] using hf) { d with cells := d.cells.set i (.val w.created) }
      (by simp [hlt]) hl hty ?_ (by simp [logDrop, World.bump, hn]) hcp hbk
    show (d.cells.set i (.val w.created)).take d.len = _
    rw [List.take_set]
    have : d.cells.take d.len = s.items.map Cell.val := habs
    rw [this, hn]
    simp [List.map_set]
  · refine ⟨_, Spec.Step.assignOut s i (by omega), ?_, hnub⟩
    have hex : step cfg ((VOp.assign i).toOp v ty) w =
        (logDrop cfg.hasDrop w.created { w.bump with fault := none }, .panic "called `Option::unwrap()` on a `None` value") := by
      have hb : ({ w with created := w.created + 1 } : World) = w.bump := rfl
      simp only [VOp.toOp, step, WM.bind_apply, getVec_ok w v d hv hl, fresh, WM.pure_apply, hb, hi, if_false, WM.onUnwind,
        WM.panic_apply, dropElem, WM.modify_apply]
      cases cfg.hasDrop <;> simp [tick, logDrop, WM.pure_apply]
    rw [hex] at hinv' ⊢
    exact Rel.mk' (bg := bg) hinv' (by frame_tac hbg) rfl d (by simpa [logDrop, World.bump] using hv) hl hty habs (by simp [logDrop, World.bump, hn]) hcp hbk

/-- what a `reserve` that returns did -/
theorem reserve_ok_cases (d d' : VecSt) (n : Nat) (es : List Event) (hwf : d.WF) (h : d.reserve n = .ok (d', es)) :
    d.len + n ≤ USIZE_MAX ∧ (d'.bk = d.bk ∧ d'.cloneable = d.cloneable) ∧
      ((d.len + n ≤ d.cap ∧ d'.cap = d.cap) ∨
       (d.cap < d.len + n ∧ d.len + n ≤ d'.cap ∧ VecSt.resizable d.bk = true)) := by
  have hlc := hwf.len_le_cap
  unfold VecSt.reserve at h
  cases hca : checkedAdd d.len n with
  | ok r =>
    obtain ⟨hr, hsm⟩ := checkedAdd_ok _ _ _ hca
    rw [hca] at h
    simp only at h
    split at h
    · rename_i hlt
      obtain ⟨hc, _, _, _, _, _, _, _, hcl', hbk', _⟩ := memExpand_spec d d' _ es hwf h
      exact ⟨hsm, ⟨hbk', hcl'⟩, Or.inr ⟨by omega, by omega, memExpand_resizable d d' _ es h⟩⟩
    · cases h
      exact ⟨hsm, ⟨rfl, rfl⟩, Or.inl ⟨by omega, rfl⟩⟩
  | panic m => rw [hca] at h; cases h
  | ub m => rw [hca] at h; cases h

/-- a `reserve` that panics was asked for more than there is (or for an unrepresentable length) -/
theorem reserve_panic_cases (d : VecSt) (n : Nat) (m : String) (h : d.reserve n = .panic m) :
    d.cap < d.len + n ∨ USIZE_MAX < d.len + n := by
  unfold VecSt.reserve at h
  cases hca : checkedAdd d.len n with
  | ok r =>
    obtain ⟨hr, hsm⟩ := checkedAdd_ok _ _ _ hca
    rw [hca] at h
    simp only at h
    split at h
    · left; omega
    · cases h
  | panic m' =>
    right
    unfold checkedAdd at hca
    split at hca
    · cases hca
    · omega
  | ub m' => rw [hca] at h; cases h

/-- `Splice::drop` refused by the storage (no injected fault, owned replacement values): the values are destroyed, the
vector stays as `Splice::new` left it -/
theorem spliceDrop_refused (cfg : Cfg) (w : World) (it : RangeIt) (d : VecSt) (ty : Nat) (ids : List Nat) (m : String)
    (hv : w.vecs[it.v]? = some d) (hl : d.live = true) (hf : w.fault = none)
    (hres : d.reserve (it.start + ids.length + (it.origLen - it.end0) - it.start) = .panic m) :
    ∃ m', spliceDrop cfg it (wrappers ty ids) ids.length w =
      (logDrops cfg.hasDrop ids { w with fault := none }, .panic m') := by
  have hdr := dropRepl_wrappers_nofault cfg ty ids { w with fault := none } rfl
  simp only [spliceDrop, WM.bind_apply, getVec_ok w it.v d hv hl]
  by_cases h1 : it.start + ids.length ≤ USIZE_MAX
  · by_cases h2 : it.start + ids.length + (it.origLen - it.end0) ≤ USIZE_MAX
    · refine ⟨m, ?_⟩
      simp only [WM.onUnwind, WM.lift, Bind.bind, Res.bind, checkedAdd, h1, h2, if_true, Pure.pure,
        vecOp_panic w it.v d (fun s => s.reserve (it.start + ids.length + (it.origLen - it.end0) - it.start)) m hv hl hres, hdr]
    · refine ⟨"capacity overflow", ?_⟩
      simp only [WM.onUnwind, WM.lift, Bind.bind, Res.bind, checkedAdd, h1, h2, if_true, if_false, hdr]
  · refine ⟨"capacity overflow", ?_⟩
    simp only [WM.onUnwind, WM.lift, Bind.bind, Res.bind, checkedAdd, h1, if_false, hdr]

theorem step_splice (cfg : Cfg) (v ty a b k : Nat) (cs : List End) (w : World) (s : Spec) (h : Rel bg v ty w s) :
    ∃ s', Spec.Step s (.splice a b k cs) s' ∧ Rel bg v ty (step cfg ((VOp.splice a b k cs).toOp v ty) w).1 s' ∧
      (step cfg ((VOp.splice a b k cs).toOp v ty) w).2.notUb := by
  obtain ⟨hinv, hf, ⟨d, hv, hl, hty, habs, hcp, hbk⟩, hn, hbg⟩ := h
  have hcore : Hist.Core ((VOp.splice a b k cs).toOp v ty) := by
    intro r hr; rw [List.eq_of_mem_replicate hr]; trivial
  have hvalid : Hist.Valid w.vecs ((VOp.splice a b k cs).toOp v ty) := by
    refine ⟨⟨d, hv, hl⟩, ?_⟩
    intro p hp
    obtain ⟨e, _, rfl⟩ := List.mem_map.mp hp
    trivial
  obtain ⟨hinv', hnub⟩ := Hist.step_inv cfg _ w hinv hcore hvalid
  have hg := hinv.good v d hv
  have hlen := abs_len hg.wf habs
  have h1 := hg.wf.len_le; have h2 := hg.wf.cells_le
  have hlt : v < w.vecs.length := (List.getElem?_eq_some_iff.mp hv).1
  let ids := List.range' w.created k
  have hidl : ids.length = k := by simp [ids]
  have hmk := mkVals_wrappers cfg ty k w
  have hvm : (w.bumpN k).vecs[v]? = some d := hv
  have hcl : ((((wrappers ty ids).length : Nat) : Int) + 0).toNat = k := by simp [hidl]
  by_cases hr : a ≤ b ∧ b ≤ d.len
  · obtain ⟨hab, hbl⟩ := hr
    have hir : intoRange d.len (.incl a) (.excl b) = .ok (a, b) := by
      simp [intoRange, rangeStart, rangeEnd, hab, hbl]
    let d0 : VecSt := { d with len := a }
    let it : RangeIt := { v := v, typed := false, start := a, end0 := b, origLen := d.len, index := a, end_ := b }
    let W0 : World := (w.bumpN k).upd v d0
    have hv0 : W0.vecs[v]? = some d0 := World.upd_get _ v d0 hlt
    have hf0 : W0.fault = none := hf
    have hW0 : ∀ u, u ≠ v → W0.vecs[u]? = bg u := by
      intro u hu
      show (w.vecs.set v d0)[u]? = _
      rw [List.getElem?_set_ne (Ne.symm hu)]; exact hbg u hu
    have hinitAll : ∀ j, a ≤ j → j < b → ∃ id, d0.cells.get j = .val id := by
      intro j _ hj
      simpa using hg.init j (by omega)
    obtain ⟨ids2, it', out', heat, e1, e2, e3, e4, e5, e6, e7, e8⟩ :=
      eatLoop_drops cfg (fun i => spliceDrop cfg i (wrappers ty (List.range' w.created k)) k) v d0 hl a b
        (by show b ≤ d.cap; omega) hinitAll cs it [toString (b - a)] W0 rfl rfl hv0 hf0 (Nat.le_refl _) hab (Nat.le_refl _)
    let it2 : RangeIt := { v := v, typed := false, start := a, end0 := b, origLen := d.len, index := it'.index, end_ := it'.end_ }
    have hit2 : it' = it2 := by
      cases it' with
      | mk v' t' s' e' o' i' j' =>
        have q1 : v' = v := e1
        have q2 : t' = false := e2
        have q3 : s' = a := e3
        have q4 : e' = b := e4
        have q5 : o' = d.len := e5
        subst q1 q2 q3 q4 q5
        rfl
    have hai : a ≤ it'.index := e6
    have hij : it'.index ≤ it'.end_ := e7
    have hjb : it'.end_ ≤ b := e8
    let W1 : World := logDrops d0.hasDrop ids2 W0
    have hv1 : W1.vecs[v]? = some d0 := by simpa [W1] using hv0
    have hf1 : W1.fault = none := by simpa [W1] using hf0
    have hW1 : ∀ u, u ≠ v → W1.vecs[u]? = bg u := by
      intro u hu; simpa [W1] using hW0 u hu
    have hstep0 : step cfg ((VOp.splice a b k cs).toOp v ty) w =
        (do spliceDrop cfg it2 (wrappers ty ids) k; pure out' : WM Out) W1 := by
      simp only [VOp.toOp, step, splice, WM.bind_apply, hmk, getVec_ok (w.bumpN k) v d hvm hl, WM.onUnwind, hir, WM.lift_ok,
        setLen, setVec_apply]
      have hcl' : ((((wrappers ty (List.range' w.created k)).length : Nat) : Int) + 0).toNat = k := hcl
      rw [hcl']
      rw [show eatLoop cfg (fun i => spliceDrop cfg i (wrappers ty (List.range' w.created k)) k)
            { v := v, typed := false, start := a, end0 := b, origLen := d.len, index := a, end_ := b }
            (cs.map fun e => (e, Sink.drop)) [toString (b - a)] ((w.bumpN k).upd v { d with len := a }) = _ from heat]
      simp only [hit2]
      rfl
    have hwf0 : d0.WF := ⟨by show a ≤ d.cells.length; omega, h2⟩
    cases hres : d0.reserve (a + k + (d.len - b) - a) with
    | ok p =>
      obtain ⟨d1, es⟩ := p
      obtain ⟨hsm0, hbk1, hcases0⟩ := reserve_ok_cases d0 d1 _ es hwf0 hres
      have hsm : a + (a + k + (d.len - b) - a) ≤ USIZE_MAX := hsm0
      have hcases : (a + (a + k + (d.len - b) - a) ≤ d.cap ∧ d1.cap = d.cap) ∨
          (d.cap < a + (a + k + (d.len - b) - a) ∧ a + (a + k + (d.len - b) - a) ≤ d1.cap ∧ VecSt.resizable d.bk = true) :=
        hcases0
      have hsmall : a + k + (d.len - b) ≤ USIZE_MAX := by omega
      have hinit : d0.InitRange it'.index (it'.end_ - it'.index) := by
        intro j hj
        have := hg.init (it'.index + j) (by omega)
        simpa using this
      have hres' : d0.reserve (it2.start + (wrappers ty ids).length + (it2.origLen - it2.end0) - it2.start) = .ok (d1, es) := by
        simpa [it2, hidl] using hres
      have hsmall' : it.start + (wrappers ty ids).length + (it2.origLen - it2.end0) ≤ USIZE_MAX := by simpa [it2, hidl] using hsmall
      have hpl : PlainList (wrappers ty ids) ids d0.ty := by
        have : d0.ty = ty := hty
        rw [this]; exact wrappers_plain ty ids
      obtain ⟨d3, he, hlen3, hcells3, hlive3, hcap3, hty3, hbk3, hcl3, _, _, _⟩ :=
        spliceDrop_exec cfg W1 it2 d0 d1 es (wrappers ty ids) ids hpl hv1 hl hf1 rfl hai hij hjb
          hbl h1 h2 hsmall' hres' hinit
      obtain ⟨_, hvis, _, _, _, _⟩ :=
        spliceDrop_replaces cfg W1 it2 d0 d1 es (wrappers ty ids) ids hpl hv1 hl hf1 rfl hai hij
          hjb hbl h1 h2 hsmall' hres' hinit
      simp only [wrappers_length, hidl] at he hvis
      have hfin : step cfg ((VOp.splice a b k cs).toOp v ty) w =
          ({ logDrops d0.hasDrop (d0.idsRange it'.index (it'.end_ - it'.index)) { W1 with vecs := W1.vecs.set v d1, ev := es.reverse ++ W1.ev } with
              vecs := W1.vecs.set v { d3 with len := a + k + (d.len - b) } }, .ok out') := by
        rw [hstep0]
        simp only [WM.bind_apply, he, WM.pure_apply]
        rfl
      have hlt0 : v < W1.vecs.length := by
        show v < (logDrops d0.hasDrop ids2 ((w.bumpN k).upd v d0)).vecs.length
        rw [World.logDrops_vecs]
        show v < ((w.bumpN k).vecs.set v d0).length
        rw [List.length_set]; exact hlt
      have habs3 : ({ d3 with len := a + k + (d.len - b) } : VecSt).abs =
          (s.items.take a ++ List.range' s.next k ++ s.items.drop b).map Cell.val := by
        have hv3 : (spliceDrop cfg it2 (wrappers ty ids) k W1).1.vecs[v]? = some { d3 with len := a + k + (d.len - b) } := by
          rw [he]
          show (W1.vecs.set v { d3 with len := a + k + (d.len - b) })[v]? = _
          simp [hlt0]
        have := vis_eq _ v _ hv3
        rw [← this, hvis]
        have hd : d.cells.take d.len = s.items.map Cell.val := habs
        simp only [it2, d0, hd, ids, hn, List.map_append, List.map_take, List.map_drop]
      rcases hcases with ⟨hfit, hc1⟩ | ⟨hover, hc1, hrz⟩
      · refine ⟨_, Spec.Step.spliceFits s a b k cs ⟨hab, by omega⟩ (by omega), ?_, hnub⟩
        rw [hfin] at hinv' ⊢
        refine Rel.mk' (bg := bg) hinv' (by intro u hu; show (W1.vecs.set v _)[u]? = _; rw [List.getElem?_set_ne (Ne.symm hu)]; exact hW1 u hu)
          (by simpa using hf1) { d3 with len := a + k + (d.len - b) } (by simp [hlt0]) hlive3
          (by show d3.ty = ty; rw [hty3]; exact hty) habs3 (by simp [W1, W0, World.bumpN, hn])
          (by show d3.cap = s.cap; rw [hcap3, hc1]; exact hcp) (by show VecSt.resizable d3.bk = _ ∧ d3.cloneable = _; rw [hbk3, hcl3, hbk1.1, hbk1.2]; exact hbk)
      · refine ⟨_, Spec.Step.spliceGrow s a b k d1.cap cs ⟨hab, by omega⟩ (by omega) ?_ (by omega), ?_, hnub⟩
        · have : VecSt.resizable d.bk = true := hrz
          rw [this] at hbk; cases hfx : s.fixed <;> simp [hfx] at hbk ⊢
        · rw [hfin] at hinv' ⊢
          refine Rel.mk' (bg := bg) hinv' (by intro u hu; show (W1.vecs.set v _)[u]? = _; rw [List.getElem?_set_ne (Ne.symm hu)]; exact hW1 u hu)
            (by simpa using hf1) { d3 with len := a + k + (d.len - b) } (by simp [hlt0]) hlive3
            (by show d3.ty = ty; rw [hty3]; exact hty) habs3 (by simp [W1, W0, World.bumpN, hn])
            (by show d3.cap = d1.cap; exact hcap3) (by show VecSt.resizable d3.bk = _ ∧ d3.cloneable = _; rw [hbk3, hcl3, hbk1.1, hbk1.2]; exact hbk)
    | panic m =>
      have hres' : d0.reserve (it2.start + ids.length + (it2.origLen - it2.end0) - it2.start) = .panic m := by
        simpa [it2, hidl] using hres
      obtain ⟨m', hex⟩ := spliceDrop_refused cfg W1 it2 d0 ty ids m hv1 hl hf1 hres'
      rw [hidl] at hex
      have hfin : step cfg ((VOp.splice a b k cs).toOp v ty) w =
          (logDrops cfg.hasDrop ids { W1 with fault := none }, .panic m') := by
        rw [hstep0]
        simp only [WM.bind_apply, hex]
      have hov : d.cap < a + (a + k + (d.len - b) - a) ∨ USIZE_MAX < a + (a + k + (d.len - b) - a) :=
        reserve_panic_cases d0 _ m hres
      refine ⟨_, Spec.Step.spliceRefused s a b k cs ⟨hab, by omega⟩ (by omega), ?_, hnub⟩
      rw [hfin] at hinv' ⊢
      refine Rel.mk' (bg := bg) hinv' (by intro u hu; simpa using hW1 u hu) (by simp) d0 (by simpa using hv1) hl hty ?_ (by simp [W1, W0, World.bumpN, hn]) hcp hbk
      show d.cells.take a = (s.items.take a).map Cell.val
      have hd : d.cells.take d.len = s.items.map Cell.val := habs
      rw [List.map_take, ← hd, List.take_take]
      congr 1; omega
    | ub m =>
      have := reserve_notUb d0 (a + k + (d.len - b) - a)
      rw [hres] at this; exact this.elim
  · -- invalid range: the replacement values are destroyed, nothing else happens
    have hdr := dropRepl_wrappers_nofault cfg ty (List.range' w.created k) { (w.bumpN k) with fault := none } rfl
    have hex : ∃ m, step cfg ((VOp.splice a b k cs).toOp v ty) w =
        (logDrops cfg.hasDrop ids { (w.bumpN k) with fault := none }, .panic m) := by
      refine ⟨if a ≤ b then "assertion failed: end <= len" else "assertion failed: start <= end", ?_⟩
      simp only [VOp.toOp, step, splice, WM.bind_apply, hmk, getVec_ok (w.bumpN k) v d hvm hl, intoRange, rangeStart,
        rangeEnd]
      by_cases hab : a ≤ b
      · have : ¬ b ≤ d.len := fun hb => hr ⟨hab, hb⟩
        simp only [hab, this, WM.lift, WM.onUnwind, hdr, if_true, if_false, Bind.bind, Res.bind]
        rfl
      · simp only [hab, WM.lift, WM.onUnwind, hdr, if_false, Bind.bind, Res.bind]
        rfl
    obtain ⟨m, hex⟩ := hex
    refine ⟨_, Spec.Step.spliceOut s a b k cs (by omega), ?_, hnub⟩
    rw [hex] at hinv' ⊢
    exact Rel.mk' (bg := bg) hinv' (by frame_tac hbg) (by simp) d (by simpa using hvm) hl hty habs (by simp [World.bumpN, hn]) hcp hbk

/-- the vector with its length lowered to `n ≤ len`: it shows the first `n` items -/
theorem abs_setLen {d : VecSt} {items : List Nat} (habs : d.abs = items.map Cell.val) (n : Nat) (hn : n ≤ d.len) :
    ({ d with len := n } : VecSt).abs = (items.take n).map Cell.val := by
  show d.cells.take n = _
  have hd : d.cells.take d.len = items.map Cell.val := habs
  rw [List.map_take, ← hd, List.take_take]
  congr 1; omega

/-- the shared part of the forgotten removal handles: `len := n`, nothing else -/
theorem step_forget_at (cfg : Cfg) (v ty : Nat) (w : World) (s : Spec) (h : Rel bg v ty w s) (vop : VOp) (n : Nat)
    (hcore : Hist.Core (vop.toOp v ty))
    (hvalid : ∀ d, w.vecs[v]? = some d → d.live = true → Hist.Valid w.vecs (vop.toOp v ty))
    (hex : ∀ d, w.vecs[v]? = some d → d.live = true → s.items.length = d.len →
      n ≤ d.len ∧ ∃ out, step cfg (vop.toOp v ty) w = (w.upd v { d with len := n }, .ok out))
    (hstep : Spec.Step s vop { s with items := s.items.take n }) :
    ∃ s', Spec.Step s vop s' ∧ Rel bg v ty (step cfg (vop.toOp v ty) w).1 s' ∧ (step cfg (vop.toOp v ty) w).2.notUb := by
  obtain ⟨hinv, hf, ⟨d, hv, hl, hty, habs, hcp, hbk⟩, hn, hbg⟩ := h
  obtain ⟨hinv', hnub⟩ := Hist.step_inv cfg _ w hinv hcore (hvalid d hv hl)
  have hg := hinv.good v d hv
  have hlen := abs_len hg.wf habs
  have hlt : v < w.vecs.length := (List.getElem?_eq_some_iff.mp hv).1
  obtain ⟨hnle, out, hx⟩ := hex d hv hl hlen
  refine ⟨_, hstep, ?_, hnub⟩
  rw [hx] at hinv' ⊢
  exact Rel.mk' (bg := bg) hinv' (by frame_tac hbg) (by simpa using hf) { d with len := n } (by simp [World.upd, hlt]) hl hty
    (abs_setLen habs n hnle) (by simpa using hn) hcp hbk

theorem step_removeForget (cfg : Cfg) (v ty i : Nat) (w : World) (s : Spec) (h : Rel bg v ty w s) :
    ∃ s', Spec.Step s (.removeForget i) s' ∧ Rel bg v ty (step cfg ((VOp.removeForget i).toOp v ty) w).1 s' ∧
      (step cfg ((VOp.removeForget i).toOp v ty) w).2.notUb := by
  by_cases hi : i < s.items.length
  · refine step_forget_at cfg v ty w s h (.removeForget i) i trivial (fun d hv hl => ⟨⟨d, hv, hl⟩, trivial⟩) ?_
      (Spec.Step.removeForget s i hi)
    intro d hv hl hlen
    refine ⟨by omega, [], ?_⟩
    have hi' : i < d.len := by omega
    simp only [VOp.toOp, step, WM.bind_apply, getVec_ok w v d hv hl, hi', if_true, setLen, setVec_apply, sinkHandle,
      WM.pure_apply]
  · obtain ⟨hinv, hf, ⟨d, hv, hl, hty, habs, hcp, hbk⟩, hn, hbg⟩ := h
    obtain ⟨hinv', hnub⟩ := Hist.step_inv cfg ((VOp.removeForget i).toOp v ty) w hinv trivial ⟨⟨d, hv, hl⟩, trivial⟩
    have hg := hinv.good v d hv
    have hlen := abs_len hg.wf habs
    have hi' : ¬ i < d.len := by omega
    have hex : step cfg ((VOp.removeForget i).toOp v ty) w = ({ w with fault := none }, .panic "Index out of range!") := by
      simp only [VOp.toOp, step, WM.bind_apply, getVec_ok w v d hv hl, hi', if_false, WM.panic_apply]
    refine ⟨s, Spec.Step.removeForgetOut s i (by omega), ?_, hnub⟩
    rw [hex] at hinv' ⊢
    exact Rel.mk' (bg := bg) hinv' (by frame_tac hbg) rfl d hv hl hty habs hn hcp hbk

theorem step_swapRemoveForget (cfg : Cfg) (v ty i : Nat) (w : World) (s : Spec) (h : Rel bg v ty w s) :
    ∃ s', Spec.Step s (.swapRemoveForget i) s' ∧ Rel bg v ty (step cfg ((VOp.swapRemoveForget i).toOp v ty) w).1 s' ∧
      (step cfg ((VOp.swapRemoveForget i).toOp v ty) w).2.notUb := by
  by_cases hi : i < s.items.length
  · refine step_forget_at cfg v ty w s h (.swapRemoveForget i) i trivial (fun d hv hl => ⟨⟨d, hv, hl⟩, trivial⟩) ?_
      (Spec.Step.swapRemoveForget s i hi)
    intro d hv hl hlen
    refine ⟨by omega, [], ?_⟩
    have hi' : i < d.len := by omega
    simp only [VOp.toOp, step, WM.bind_apply, getVec_ok w v d hv hl, hi', if_true, setLen, setVec_apply, sinkHandle,
      WM.pure_apply]
  · obtain ⟨hinv, hf, ⟨d, hv, hl, hty, habs, hcp, hbk⟩, hn, hbg⟩ := h
    obtain ⟨hinv', hnub⟩ := Hist.step_inv cfg ((VOp.swapRemoveForget i).toOp v ty) w hinv trivial ⟨⟨d, hv, hl⟩, trivial⟩
    have hg := hinv.good v d hv
    have hlen := abs_len hg.wf habs
    have hi' : ¬ i < d.len := by omega
    have hex : step cfg ((VOp.swapRemoveForget i).toOp v ty) w = ({ w with fault := none }, .panic "Index out of range!") := by
      simp only [VOp.toOp, step, WM.bind_apply, getVec_ok w v d hv hl, hi', if_false, WM.panic_apply]
    refine ⟨s, Spec.Step.swapRemoveForgetOut s i (by omega), ?_, hnub⟩
    rw [hex] at hinv' ⊢
    exact Rel.mk' (bg := bg) hinv' (by frame_tac hbg) rfl d hv hl hty habs hn hcp hbk

theorem step_popForget (cfg : Cfg) (v ty : Nat) (w : World) (s : Spec) (h : Rel bg v ty w s) :
    ∃ s', Spec.Step s .popForget s' ∧ Rel bg v ty (step cfg (VOp.popForget.toOp v ty) w).1 s' ∧
      (step cfg (VOp.popForget.toOp v ty) w).2.notUb := by
  refine step_forget_at cfg v ty w s h .popForget (s.items.length - 1) trivial (fun d hv hl => ⟨⟨d, hv, hl⟩, trivial⟩) ?_
    (Spec.Step.popForget s)
  intro d hv hl hlen
  refine ⟨by omega, ?_⟩
  by_cases h0 : d.len = 0
  · refine ⟨["N"], ?_⟩
    have : w.upd v { d with len := s.items.length - 1 } = w := by
      rw [hlen, h0]
      have : ({ d with len := 0 - 1 } : VecSt) = d := by cases d; simp at h0 ⊢; omega
      rw [this]; exact World.upd_self w v d hv
    rw [this]
    simp only [VOp.toOp, step, WM.bind_apply, getVec_ok w v d hv hl, h0, if_true, WM.pure_apply]
  · refine ⟨[], ?_⟩
    rw [hlen]
    simp only [VOp.toOp, step, WM.bind_apply, getVec_ok w v d hv hl, h0, if_false, setLen, setVec_apply, sinkHandle,
      WM.pure_apply]

theorem step_drainForget (cfg : Cfg) (v ty a b : Nat) (w : World) (s : Spec) (h : Rel bg v ty w s) :
    ∃ s', Spec.Step s (.drainForget a b) s' ∧ Rel bg v ty (step cfg ((VOp.drainForget a b).toOp v ty) w).1 s' ∧
      (step cfg ((VOp.drainForget a b).toOp v ty) w).2.notUb := by
  by_cases hr : a ≤ b ∧ b ≤ s.items.length
  · refine step_forget_at cfg v ty w s h (.drainForget a b) a trivial
      (fun d hv hl => ⟨⟨d, hv, hl⟩, by intro p hp; cases hp⟩) ?_ (Spec.Step.drainForget s a b hr)
    intro d hv hl hlen
    refine ⟨by omega, [toString (b - a)], ?_⟩
    have hir : intoRange d.len (.incl a) (.excl b) = .ok (a, b) := by
      simp [intoRange, rangeStart, rangeEnd, hr.1, show b ≤ d.len by omega]
    simp only [VOp.toOp, step, drain, WM.bind_apply, getVec_ok w v d hv hl, hir, WM.lift_ok, setLen, setVec_apply, eatLoop,
      WM.pure_apply]
  · obtain ⟨hinv, hf, ⟨d, hv, hl, hty, habs, hcp, hbk⟩, hn, hbg⟩ := h
    obtain ⟨hinv', hnub⟩ := Hist.step_inv cfg ((VOp.drainForget a b).toOp v ty) w hinv trivial
      ⟨⟨d, hv, hl⟩, by intro p hp; cases hp⟩
    have hg := hinv.good v d hv
    have hlen := abs_len hg.wf habs
    have hex : step cfg ((VOp.drainForget a b).toOp v ty) w =
        ({ w with fault := none }, .panic (if a ≤ b then "assertion failed: end <= len" else "assertion failed: start <= end")) := by
      simp only [VOp.toOp, step, drain, WM.bind_apply, getVec_ok w v d hv hl, intoRange, rangeStart, rangeEnd]
      by_cases hab : a ≤ b
      · have : ¬ b ≤ d.len := fun hb => hr ⟨hab, by omega⟩
        simp [hab, this, WM.lift]
      · simp [hab, WM.lift]
    refine ⟨s, Spec.Step.drainForgetOut s a b hr, ?_, hnub⟩
    rw [hex] at hinv' ⊢
    exact Rel.mk' (bg := bg) hinv' (by frame_tac hbg) rfl d hv hl hty habs hn hcp hbk

/-- **one step refines the abstract vector** -/
theorem step_refines (cfg : Cfg) (v ty : Nat) (w : World) (s : Spec) (h : Rel bg v ty w s) (op : VOp)
    (hop : op.Allowed s.fixed) :
    ∃ s', Spec.Step s op s' ∧ Rel bg v ty (step cfg (op.toOp v ty) w).1 s' ∧ (step cfg (op.toOp v ty) w).2.notUb := by
  cases op with
  | push => exact step_push cfg v ty w s h
  | tpush => exact step_tpush cfg v ty w s h
  | insert i => exact step_insert cfg v ty i w s h
  | tinsert i => exact step_tinsert cfg v ty i w s h
  | pop => exact step_pop cfg v ty w s h
  | remove i => exact step_remove cfg v ty i w s h
  | swapRemove i => exact step_swapRemove cfg v ty i w s h
  | clear => exact step_clear cfg v ty w s h
  | drain a b cs => exact step_drain cfg v ty a b cs w s h
  | tpop => exact step_tpop cfg v ty w s h
  | tremove i => exact step_tremove cfg v ty i w s h
  | tswapRemove i => exact step_tswapRemove cfg v ty i w s h
  | reserve n => exact step_reserve cfg v ty n w s h
  | reserveExact n => exact step_reserveExact cfg v ty n w s h hop
  | shrinkToFit => exact step_shrinkToFit cfg v ty w s h hop
  | shrinkTo n => exact step_shrinkTo cfg v ty n w s h hop
  | swap i j => exact step_swap cfg v ty i j w s h
  | assign i => exact step_assign cfg v ty i w s h
  | splice a b k cs => exact step_splice cfg v ty a b k cs w s h
  | popForget => exact step_popForget cfg v ty w s h
  | removeForget i => exact step_removeForget cfg v ty i w s h
  | swapRemoveForget i => exact step_swapRemoveForget cfg v ty i w s h
  | drainForget a b => exact step_drainForget cfg v ty a b w s h

/-- no operation changes the kind of storage -/
theorem Spec.Step.fixed_eq {s s' : Spec} {op : VOp} (h : Spec.Step s op s') : s'.fixed = s.fixed := by
  cases h <;> rfl

/-- run a history of element-wise operations -/
def runOps (cfg : Cfg) (v ty : Nat) : World → List VOp → World
  | w, [] => w
  | w, op :: ops => runOps cfg v ty (step cfg (op.toOp v ty) w).1 ops

/-- the abstract vector can follow along -/
inductive Spec.Steps : Spec → List VOp → Spec → Prop where
  | nil (s : Spec) : Steps s [] s
  | cons (s s1 s2 : Spec) (op : VOp) (ops : List VOp) : Spec.Step s op s1 → Steps s1 ops s2 → Steps s (op :: ops) s2

/-- **every history refines the abstract vector**: from any world in which vector `v` shows the abstract items and
capacity (and which satisfies the invariant, e.g. any reachable world), any sequence of operations - erased and typed
`push`/`insert`, `pop`/`remove`/`swap_remove` with the handle dropped or (typed) with the value taken, `clear`,
`drain(a..b)` and `splice(a..b, k new values)` dropped unconsumed, `reserve`/`reserve_exact`/`shrink_to_fit`/`shrink_to`,
typed `swap` and assignment,
with any indices and amounts - leads to a world that shows what the abstract `Vec` shows after some run of the same
sequence, and no step faults on memory. The abstract run refuses a value only when the vector is full, grows the
capacity only when it must (and never on a fixed storage), and leaves the capacity alone otherwise. -/
theorem history_refines (cfg : Cfg) (v ty : Nat) (ops : List VOp) :
    ∀ (w : World) (s : Spec), Rel bg v ty w s → (∀ op ∈ ops, op.Allowed s.fixed) →
      ∃ s', Spec.Steps s ops s' ∧ Rel bg v ty (runOps cfg v ty w ops) s' := by
  induction ops with
  | nil => intro w s h _; exact ⟨s, Spec.Steps.nil s, h⟩
  | cons op ops ih =>
    intro w s h hall
    obtain ⟨s1, hs1, hrel1, _⟩ := step_refines cfg v ty w s h op (hall op List.mem_cons_self)
    have hfx := hs1.fixed_eq
    obtain ⟨s2, hs2, hrel2⟩ := ih _ s1 hrel1 (by intro o ho; rw [hfx]; exact hall o (List.mem_cons_of_mem _ ho))
    exact ⟨s2, Spec.Steps.cons s s1 s2 op ops hs1 hs2, hrel2⟩

/-- **the other vectors are not touched**: whatever is done to `v`, every other vector of the world is, after the history,
exactly what it was before (C01; for a clone and its source: C08's independence) -/
theorem history_frame (cfg : Cfg) (v ty : Nat) (ops : List VOp) (w : World) (s : Spec) (h : Rel bg v ty w s)
    (hall : ∀ op ∈ ops, op.Allowed s.fixed) (u : Nat) (hu : u ≠ v) :
    (runOps cfg v ty w ops).vecs[u]? = w.vecs[u]? := by
  obtain ⟨s', _, hrel⟩ := history_refines cfg v ty ops w s h hall
  rw [hrel.others u hu, h.others u hu]

/-- **independence of two vectors**: a second vector `u` that shows an abstract vector keeps showing it - same items,
same capacity - through any history on `v`; only the counter fresh identities come from has moved on -/
theorem other_vector_keeps {bg' : Nat → Option VecSt} (cfg : Cfg) (v ty : Nat) (ops : List VOp) (w : World) (s : Spec)
    (h : Rel bg v ty w s) (hall : ∀ op ∈ ops, op.Allowed s.fixed) (u tu : Nat) (su : Spec) (hu : u ≠ v)
    (hrelu : Rel bg' u tu w su) :
    ∃ s', Spec.Steps s ops s' ∧
      Rel (fun x => (runOps cfg v ty w ops).vecs[x]?) u tu (runOps cfg v ty w ops) { su with next := s'.next } := by
  obtain ⟨s', hsteps, hrel⟩ := history_refines cfg v ty ops w s h hall
  refine ⟨s', hsteps, hrel.inv, hrel.nofault, ?_, hrel.next, fun _ _ => rfl⟩
  obtain ⟨du, hvu, rest⟩ := hrelu.vec
  exact ⟨du, by rw [hrel.others u hu, ← h.others u hu]; exact hvu, rest⟩

/-- with room the abstract `push` has no choice: it appends and leaves the capacity alone -/
theorem Spec.push_with_room (t t' : Spec) (hroom : t.items.length < t.cap) (hp : Spec.Step t .push t') :
    t'.items = t.items ++ [t.next] ∧ t'.cap = t.cap ∧ t'.next = t.next + 1 ∧ t'.fixed = t.fixed := by
  cases hp with
  | push c hr =>
    cases hr with
    | room hlt => exact ⟨rfl, rfl, rfl, rfl⟩
    | grow c hfull _ _ => omega
  | pushRefused hr =>
    cases hr with
    | refuse hfull => omega

/-- `k` pushes into room for `k`: all appended, none refused, the capacity untouched -/
theorem Spec.pushes_with_room (k : Nat) : ∀ (t t' : Spec), t.items.length + k ≤ t.cap →
    Spec.Steps t (List.replicate k .push) t' →
    t'.items = t.items ++ List.range' t.next k ∧ t'.cap = t.cap ∧ t'.next = t.next + k := by
  induction k with
  | zero =>
    intro t t' _ hs
    cases hs
    simp
  | succ k ih =>
    intro t t' hroom hs
    rw [List.replicate_succ] at hs
    cases hs with
    | cons _ s1 _ _ _ h1 hrest =>
      obtain ⟨hi, hc, hn, _⟩ := Spec.push_with_room t s1 (by omega) h1
      obtain ⟨hi', hc', hn'⟩ := ih s1 t' (by rw [hi, hc]; simp; omega) hrest
      refine ⟨?_, by rw [hc', hc], by rw [hn', hn]; omega⟩
      rw [hi', hi, hn, List.range'_succ]
      simp

/-- a `reserve(n)` step of the abstract vector: refused, or `len + n ≤ capacity` afterwards -/
theorem Spec.reserve_result (s s' : Spec) (n : Nat) (h : Spec.Step s (.reserve n) s') :
    s'.items = s.items ∧ s'.next = s.next ∧ (s'.items.length + n ≤ s'.cap ∨ (s' = s ∧ s.cap < s.items.length + n)) := by
  cases h with
  | reserveFits _ hfit => exact ⟨rfl, rfl, Or.inl hfit⟩
  | reserveGrow _ c hlt hfix hc => exact ⟨rfl, rfl, Or.inl hc⟩
  | reserveRefused _ hlt => exact ⟨rfl, rfl, Or.inr ⟨rfl, hlt⟩⟩

/-- **`reserve(n)` keeps its promise (C10 through the refinement)**: from any related world, `reserve(n)` either is
refused (then `capacity < len + n` and nothing changed) or the next `n` pushes all succeed: the world then shows the old
items followed by the `n` new ones, at the capacity `reserve` left. -/
theorem reserve_then_pushes (cfg : Cfg) (v ty n : Nat) (w : World) (s : Spec) (h : Rel bg v ty w s) :
    ∃ s1, Rel bg v ty (step cfg (.reserve v n) w).1 s1 ∧ s1.items = s.items ∧
      ((s1 = s ∧ s.cap < s.items.length + n) ∨
       ∃ s', Rel bg v ty (runOps cfg v ty (step cfg (.reserve v n) w).1 (List.replicate n .push)) s' ∧
         s'.items = s.items ++ List.range' s.next n ∧ s'.cap = s1.cap) := by
  obtain ⟨s1, hs1, hrel1, _⟩ := step_refines cfg v ty w s h (.reserve n) trivial
  obtain ⟨hi, hn, hres⟩ := Spec.reserve_result s s1 n hs1
  refine ⟨s1, hrel1, hi, ?_⟩
  rcases hres with hgot | hrefused
  · right
    obtain ⟨s', hsteps, hrel'⟩ := history_refines cfg v ty (List.replicate n .push) _ s1 hrel1
      (by intro op hop; rw [List.eq_of_mem_replicate hop]; trivial)
    obtain ⟨hi', hc', _⟩ := Spec.pushes_with_room n s1 s' hgot hsteps
    exact ⟨s', hrel', by rw [hi', hi, hn], hc'⟩
  · exact Or.inl hrefused

/-- a fixed storage never changes its capacity, whatever the operation -/
theorem Spec.Step.cap_fixed {s s' : Spec} {op : VOp} (h : Spec.Step s op s') (hfx : s.fixed = true)
    (hop : op.Allowed s.fixed) : s'.cap = s.cap := by
  have hne : ¬ s.fixed = false := by rw [hfx]; simp
  cases h
  case push c hr => cases hr with
    | room _ => rfl
    | grow c _ hfix _ => exact (hne hfix).elim
  case tpush c hr => cases hr with
    | room _ => rfl
    | grow c _ hfix _ => exact (hne hfix).elim
  case insert c _ hr => cases hr with
    | room _ => rfl
    | grow c _ hfix _ => exact (hne hfix).elim
  case tinsert c _ hr => cases hr with
    | room _ => rfl
    | grow c _ hfix _ => exact (hne hfix).elim
  case reserveGrow c _ hfix _ => exact (hne hfix).elim
  case spliceGrow _ _ _ _ _ _ _ hfix _ => exact (hne hfix).elim
  case reserveExactGrow => exact (hne hop).elim
  case shrinkToFit => exact (hne hop).elim
  case shrinkTo => exact (hne hop).elim
  all_goals rfl

/-- … over whole histories (C11: a stack vector holds exactly the capacity it was built with, whatever is done to it;
a `push` / `insert` is accepted exactly while `len < capacity`, `Spec.Room`) -/
theorem Spec.Steps.cap_fixed {s s' : Spec} {ops : List VOp} (h : Spec.Steps s ops s') (hfx : s.fixed = true)
    (hall : ∀ op ∈ ops, op.Allowed s.fixed) : s'.cap = s.cap := by
  induction h with
  | nil s => rfl
  | cons s s1 s2 op ops h1 _ ih =>
    have hc := h1.cap_fixed hfx (hall op List.mem_cons_self)
    have hf := h1.fixed_eq
    rw [ih (by rw [hf, hfx]) (by intro o ho; rw [hf]; exact hall o (List.mem_cons_of_mem _ ho)), hc]

/-- the operation cannot meet the capacity boundary in this state (the `shrink_*` requests are excluded: the storage may
always decline them) -/
def VOp.Roomy (s : Spec) : VOp → Prop
  | .push | .tpush | .insert _ | .tinsert _ => s.items.length < s.cap
  | .splice a b k _ => a + k + (s.items.length - b) ≤ s.cap ∧ a + k + (s.items.length - b) ≤ USIZE_MAX
  | .reserve n | .reserveExact n => s.items.length + n ≤ s.cap
  | .shrinkToFit | .shrinkTo _ => False
  | _ => True

/-- **away from the capacity boundary the abstract vector has no freedom at all**: the step relation is a function -
every alternative in `Spec.Step` other than "what `Vec` does" is tied to a full vector or an unrepresentable length -/
theorem Spec.Step.deterministic (s s1 s2 : Spec) (op : VOp) (hr : op.Roomy s) (h1 : Spec.Step s op s1)
    (h2 : Spec.Step s op s2) : s1 = s2 := by
  have room_some : ∀ c, s.items.length < s.cap → s.Room (some c) → c = s.cap := by
    intro c hlt hroom
    cases hroom with
    | room _ => rfl
    | grow c hfull _ _ => omega
  have room_none : s.items.length < s.cap → ¬ s.Room none := by
    intro hlt hroom
    cases hroom with
    | refuse hfull => omega
  cases op with
  | push =>
    cases h1 with
    | push c1 hr1 => cases h2 with
      | push c2 hr2 => rw [room_some c1 hr hr1, room_some c2 hr hr2]
      | pushRefused hno => exact absurd hno (room_none hr)
    | pushRefused hno => exact absurd hno (room_none hr)
  | tpush =>
    cases h1 with
    | tpush c1 hr1 => cases h2 with
      | tpush c2 hr2 => rw [room_some c1 hr hr1, room_some c2 hr hr2]
      | tpushRefused hno => exact absurd hno (room_none hr)
    | tpushRefused hno => exact absurd hno (room_none hr)
  | insert i =>
    cases h1 with
    | insert _ c1 hi1 hr1 => cases h2 with
      | insert _ c2 hi2 hr2 => rw [room_some c1 hr hr1, room_some c2 hr hr2]
      | insertRefused _ hno => rcases hno with hlt | hno
                               · omega
                               · exact absurd hno (room_none hr)
    | insertRefused _ hno1 => cases h2 with
      | insert _ c2 hi2 hr2 => rcases hno1 with hlt | hno
                               · omega
                               · exact absurd hno (room_none hr)
      | insertRefused _ hno2 => rfl
  | tinsert i =>
    cases h1 with
    | tinsert _ c1 hi1 hr1 => cases h2 with
      | tinsert _ c2 hi2 hr2 => rw [room_some c1 hr hr1, room_some c2 hr hr2]
      | tinsertRefused _ hno => rcases hno with hlt | hno
                                · omega
                                · exact absurd hno (room_none hr)
    | tinsertRefused _ hno1 => cases h2 with
      | tinsert _ c2 hi2 hr2 => rcases hno1 with hlt | hno
                                · omega
                                · exact absurd hno (room_none hr)
      | tinsertRefused _ hno2 => rfl
  | splice a b k cs =>
    obtain ⟨hr1, hr2⟩ := hr
    cases h1 <;> cases h2 <;> first | rfl | (exfalso; omega)
  | reserve n =>
    have hr' : s.items.length + n ≤ s.cap := hr
    cases h1 <;> cases h2 <;> first | rfl | (exfalso; omega)
  | reserveExact n =>
    have hr' : s.items.length + n ≤ s.cap := hr
    cases h1 <;> cases h2 <;> first | rfl | (exfalso; omega)
  | shrinkToFit => exact hr.elim
  | shrinkTo n => exact hr.elim
  | pop => cases h1; cases h2; rfl
  | clear => cases h1; cases h2; rfl
  | tpop => cases h1; cases h2; rfl
  | popForget => cases h1; cases h2; rfl
  | remove i => cases h1 <;> cases h2 <;> first | rfl | (exfalso; omega)
  | swapRemove i => cases h1 <;> cases h2 <;> first | rfl | (exfalso; omega)
  | tremove i => cases h1 <;> cases h2 <;> first | rfl | (exfalso; omega)
  | tswapRemove i => cases h1 <;> cases h2 <;> first | rfl | (exfalso; omega)
  | drain a b cs => cases h1 <;> cases h2 <;> first | rfl | (exfalso; omega)
  | swap i j => cases h1 <;> cases h2 <;> first | rfl | (exfalso; omega)
  | assign i => cases h1 <;> cases h2 <;> first | rfl | (exfalso; omega)
  | removeForget i => cases h1 <;> cases h2 <;> first | rfl | (exfalso; omega)
  | swapRemoveForget i => cases h1 <;> cases h2 <;> first | rfl | (exfalso; omega)
  | drainForget a b => cases h1 <;> cases h2 <;> first | rfl | (exfalso; omega)

/-- reads: `get(i)` shows the abstract item at `i` (`None` past the end) and changes nothing; `at(i)` likewise, with
the `unwrap` panic past the end -/
theorem get_refines (cfg : Cfg) (v ty i : Nat) (w : World) (s : Spec) (h : Rel bg v ty w s) :
    step cfg (.get v i false) w =
      (w, .ok [match s.items[i]? with | some id => cfg.tok id | none => "N"]) ∧
    (i < s.items.length → step cfg (.get v i true) w = step cfg (.get v i false) w) := by
  obtain ⟨hinv, hf, ⟨d, hv, hl, hty, habs, hcp, hbk⟩, hn, hbg⟩ := h
  have hg := hinv.good v d hv
  have hlen := abs_len hg.wf habs
  have h1 := hg.wf.len_le; have h2 := hg.wf.cells_le
  by_cases hi : i < d.len
  · have hc := cell_of_abs hg habs i hi
    have hi' : i < s.items.length := by omega
    have hread : readElem v i w = (w, .ok (s.items.getD i 0)) := by
      simp only [readElem, WM.bind_apply, getVec_ok w v d hv hl, WM.lift, VecSt.readElem_ok d i _ (by omega) hc]
    constructor
    · simp only [step, WM.bind_apply, getVec_ok w v d hv hl, hi, if_true, hread, WM.pure_apply,
        List.getElem?_eq_getElem hi']
      simp [List.getD_eq_getElem?_getD, List.getElem?_eq_getElem hi']
    · intro _
      simp only [step, WM.bind_apply, getVec_ok w v d hv hl, hi, if_true]
  · have hi' : ¬ i < s.items.length := by omega
    constructor
    · simp only [step, WM.bind_apply, getVec_ok w v d hv hl, hi, if_false, WM.pure_apply]
      have : s.items[i]? = none := by simp; omega
      simp [this]
    · intro hh; exact (hi' hh).elim

/-- what iterating the abstract vector with the calls `cs` prints: the item (or `N`) and the remaining length per call -/
def specIter (cfg : Cfg) (items : List Nat) : Cursor → List End → Out → Out
  | _, [], out => out
  | c, e :: cs, out =>
    match c.step e with
    | (none, c') => specIter cfg items c' cs (out ++ ["N:" ++ toString c'.len])
    | (some slot, c') => specIter cfg items c' cs (out ++ [cfg.tok (items.getD slot 0) ++ ":" ++ toString c'.len])

theorem iterGo_refines (cfg : Cfg) (v : Nat) (w : World) (d : VecSt) (items : List Nat)
    (hv : w.vecs[v]? = some d) (hl : d.live = true) (hg : d.Good) (habs : d.abs = items.map Cell.val) :
    ∀ (cs : List End) (c : Cursor) (out : Out), c.index ≤ c.end_ → c.end_ ≤ d.len →
      iterGo cfg v c cs out w = (w, .ok (specIter cfg items c cs out)) := by
  have h2 := hg.wf.len_le; have h3 := hg.wf.cells_le
  have hread : ∀ slot, slot < d.len → readElem v slot w = (w, .ok (items.getD slot 0)) := by
    intro slot hs
    have hc := cell_of_abs hg habs slot hs
    simp only [readElem, WM.bind_apply, getVec_ok w v d hv hl, WM.lift, VecSt.readElem_ok d slot _ (by omega) hc]
  intro cs
  induction cs with
  | nil => intro c out _ _; rfl
  | cons e cs ih =>
    intro c out h1 hle
    cases e with
    | front =>
      by_cases hemp : c.index = c.end_
      · have hs : c.step .front = (none, c) := by simp [Cursor.step, Cursor.next, hemp]
        simp only [iterGo, specIter, hs]
        exact ih c _ h1 hle
      · have hs : c.step .front = (some c.index, { c with index := c.index + 1 }) := by
          simp [Cursor.step, Cursor.next, hemp]
        simp only [iterGo, specIter, hs, WM.bind_apply, hread c.index (by omega)]
        exact ih _ _ (by show c.index + 1 ≤ c.end_; omega) hle
    | back =>
      by_cases hemp : c.end_ = c.index
      · have hs : c.step .back = (none, c) := by simp [Cursor.step, Cursor.nextBack, hemp]
        simp only [iterGo, specIter, hs]
        exact ih c _ h1 hle
      · have hs : c.step .back = (some (c.end_ - 1), { c with end_ := c.end_ - 1 }) := by
          simp [Cursor.step, Cursor.nextBack, hemp]
        simp only [iterGo, specIter, hs, WM.bind_apply, hread (c.end_ - 1) (by omega)]
        exact ih _ _ (by show c.index ≤ c.end_ - 1; omega) (by show c.end_ - 1 ≤ d.len; omega)

/-- **iteration refines the abstract vector** (C13 / C14 through the refinement): any sequence of `next` / `next_back`
calls on `iter()` of a related vector yields exactly the abstract items from the two ends inwards, reports the
remaining length after every call, keeps returning `None` once the ends have met, and changes nothing -/
theorem iter_refines (cfg : Cfg) (v ty : Nat) (cs : List End) (w : World) (s : Spec) (h : Rel bg v ty w s) :
    step cfg (.iter v cs) w =
      (w, .ok (specIter cfg s.items ⟨0, s.items.length⟩ cs [toString s.items.length])) := by
  obtain ⟨hinv, hf, ⟨d, hv, hl, hty, habs, hcp, hbk⟩, hn, hbg⟩ := h
  have hg := hinv.good v d hv
  have hlen := abs_len hg.wf habs
  simp only [step, WM.bind_apply, getVec_ok w v d hv hl]
  rw [iterGo_refines cfg v w d s.items hv hl hg habs cs ⟨0, d.len⟩ _ (Nat.zero_le _) (Nat.le_refl _), hlen]

/-- every reachable world (any history of core operations under any fault injection) satisfies the invariant the
relation asks for: the refinement starts from wherever such a history has led -/
theorem rel_of_reach (cfg : Cfg) (w : World) (hr : Hist.Reach cfg w) (hf : w.fault = none) (v : Nat) (d : VecSt)
    (hv : w.vecs[v]? = some d) (hl : d.live = true) :
    ∃ items, Rel (fun u => w.vecs[u]?) v d.ty w ⟨items, w.created, d.cap, !VecSt.resizable d.bk, d.cloneable⟩ := by
  have hinv := Hist.reach_inv_core cfg w hr
  have hg := hinv.good v d hv
  -- every visible cell is a value: read the identities off
  refine ⟨d.abs.map Cell.idOr0, hinv, hf, ⟨d, hv, hl, rfl, ?_, rfl, by simp, rfl⟩, rfl, fun _ _ => rfl⟩
  simp only [List.map_map]
  have : ∀ c ∈ d.abs, (Cell.val ∘ Cell.idOr0) c = c := by
    intro c hc
    obtain ⟨id, rfl⟩ := hg.allVal c hc
    rfl
  rw [List.map_congr_left this]; simp

/-- **from any reachable situation**: take any world reachable by any history of core operations under any fault
injection (7.1), any live vector in it, and any sequence of the operations above: the sequence behaves like the same
sequence on an abstract `Vec` that starts with the items and the capacity the vector shows, and no other vector changes -/
theorem reachable_history_refines (cfg : Cfg) (w : World) (hr : Hist.Reach cfg w) (hf : w.fault = none) (v : Nat)
    (d : VecSt) (hv : w.vecs[v]? = some d) (hl : d.live = true) (ops : List VOp)
    (hall : ∀ op ∈ ops, op.Allowed (!VecSt.resizable d.bk)) :
    ∃ items s', Spec.Steps ⟨items, w.created, d.cap, !VecSt.resizable d.bk, d.cloneable⟩ ops s' ∧
      Rel (fun u => w.vecs[u]?) v d.ty (runOps cfg v d.ty w ops) s' ∧
      ∀ u, u ≠ v → (runOps cfg v d.ty w ops).vecs[u]? = w.vecs[u]? := by
  obtain ⟨items, hrel⟩ := rel_of_reach cfg w hr hf v d hv hl
  obtain ⟨s', hsteps, hrel'⟩ := history_refines cfg v d.ty ops w _ hrel hall
  exact ⟨items, s', hsteps, hrel', fun u hu => hrel'.others u hu⟩

/-! non-vacuity: a concrete world and history -/
def sampleVec : VecSt :=
  { ty := 0, size := 8, align := 8, hasDrop := true, cloneable := true, bk := .heap, cap := 4,
    cells := [.val 10, .val 11, .val 12], len := 3, gen := 0, live := true }
def sampleWorld : World := { vecs := [sampleVec], created := 13 }
def sampleOps : List VOp := [.push, .insert 1, .remove 0, .swapRemove 0, .pop, .tpush, .remove 9, .reserve 3, .swap 0 2]
def sampleOps2 : List VOp := [.splice 1 2 2 [.back, .front], .assign 0]

example : (runOps { size := 8, align := 8, hasDrop := true } 0 0 sampleWorld sampleOps).vis 0 =
    [.val 15, .val 11, .val 13] := by decide
example : (runOps { size := 8, align := 8, hasDrop := true } 0 0 sampleWorld sampleOps2).vis 0 =
    [.val 15, .val 13, .val 14, .val 12] := by decide

end Refine
end AnyVec
