/-
  AnyVecModel.Props.Refine — C01 as a refinement: any sequence of element-wise operations on a vector, from any
  world satisfying the invariant, behaves like the same sequence on an abstract `Vec` (a list of element
  identities with a fresh-identity counter). The only freedom the abstract side has is that an operation which needs
  room may be refused by the storage (capacity overflow, fixed capacity): then the value offered is destroyed and the
  vector is unchanged - which is also what `std::vec::Vec` does up to its panic.
-/
import AnyVecModel.Proofs.Exec
import AnyVecModel.Props.Hist
namespace AnyVec
namespace Refine
open World

/-- the element-wise operations of C01: values come as owned wrappers, removal handles are dropped -/
inductive VOp where
  | push | tpush | insert (i : Nat) | tinsert (i : Nat)
  | pop | remove (i : Nat) | swapRemove (i : Nat) | clear
  /-- `drain(a..b)` dropped without taking any item -/
  | drain (a b : Nat)
  /-- removals through the typed view: the value goes to the caller -/
  | tpop | tremove (i : Nat) | tswapRemove (i : Nat)
  deriving Repr, DecidableEq

/-- the script step of an abstract operation on vector `v` whose elements have type `ty` -/
def VOp.toOp (v ty : Nat) : VOp → Op
  | .push => .push v (.wrapper ty)
  | .tpush => .tpush v
  | .insert i => .insert v i (.wrapper ty)
  | .tinsert i => .tinsert v i
  | .pop => .pop v .drop
  | .remove i => .remove v i .drop
  | .swapRemove i => .swapRemove v i .drop
  | .clear => .clear v
  | .drain a b => .drain v (.incl a) (.excl b) false [] .drop
  | .tpop => .tpop v
  | .tremove i => .tremove v i
  | .tswapRemove i => .tswapRemove v i

/-- `Vec<Id>` plus the counter identities are drawn from -/
structure Spec where
  items : List Nat
  next : Nat
  deriving Repr, DecidableEq

/-- what the abstract vector does -/
inductive Spec.Step : Spec → VOp → Spec → Prop where
  | push (s : Spec) : Step s .push ⟨s.items ++ [s.next], s.next + 1⟩
  | pushRefused (s : Spec) : Step s .push ⟨s.items, s.next + 1⟩
  | tpush (s : Spec) : Step s .tpush ⟨s.items ++ [s.next], s.next + 1⟩
  | tpushRefused (s : Spec) : Step s .tpush ⟨s.items, s.next + 1⟩
  | insert (s : Spec) (i : Nat) (h : i ≤ s.items.length) : Step s (.insert i) ⟨s.items.insertIdx i s.next, s.next + 1⟩
  | insertRefused (s : Spec) (i : Nat) : Step s (.insert i) ⟨s.items, s.next + 1⟩
  | tinsert (s : Spec) (i : Nat) (h : i ≤ s.items.length) : Step s (.tinsert i) ⟨s.items.insertIdx i s.next, s.next + 1⟩
  | tinsertRefused (s : Spec) (i : Nat) : Step s (.tinsert i) ⟨s.items, s.next + 1⟩
  | pop (s : Spec) : Step s .pop ⟨s.items.take (s.items.length - 1), s.next⟩
  | remove (s : Spec) (i : Nat) (h : i < s.items.length) : Step s (.remove i) ⟨s.items.eraseIdx i, s.next⟩
  | removeOut (s : Spec) (i : Nat) (h : s.items.length ≤ i) : Step s (.remove i) s
  | swapRemove (s : Spec) (i : Nat) (h : i < s.items.length) :
      Step s (.swapRemove i) ⟨(s.items.set i (s.items.getD (s.items.length - 1) 0)).take (s.items.length - 1), s.next⟩
  | swapRemoveOut (s : Spec) (i : Nat) (h : s.items.length ≤ i) : Step s (.swapRemove i) s
  | clear (s : Spec) : Step s .clear ⟨[], s.next⟩
  | drain (s : Spec) (a b : Nat) (h : a ≤ b ∧ b ≤ s.items.length) :
      Step s (.drain a b) ⟨s.items.take a ++ s.items.drop b, s.next⟩
  | drainOut (s : Spec) (a b : Nat) (h : ¬ (a ≤ b ∧ b ≤ s.items.length)) : Step s (.drain a b) s
  | tpop (s : Spec) : Step s .tpop ⟨s.items.take (s.items.length - 1), s.next⟩
  | tremove (s : Spec) (i : Nat) (h : i < s.items.length) : Step s (.tremove i) ⟨s.items.eraseIdx i, s.next⟩
  | tremoveOut (s : Spec) (i : Nat) (h : s.items.length ≤ i) : Step s (.tremove i) s
  | tswapRemove (s : Spec) (i : Nat) (h : i < s.items.length) :
      Step s (.tswapRemove i) ⟨(s.items.set i (s.items.getD (s.items.length - 1) 0)).take (s.items.length - 1), s.next⟩
  | tswapRemoveOut (s : Spec) (i : Nat) (h : s.items.length ≤ i) : Step s (.tswapRemove i) s

/-- the concrete world shows the abstract vector at `v` -/
structure Rel (v ty : Nat) (w : World) (s : Spec) : Prop where
  inv : w.Inv
  nofault : w.fault = none
  vec : ∃ d, w.vecs[v]? = some d ∧ d.live = true ∧ d.ty = ty ∧ d.abs = s.items.map Cell.val
  next : w.created = s.next

theorem vis_eq (w : World) (v : Nat) (d : VecSt) (hv : w.vecs[v]? = some d) : w.vis v = d.abs := by
  simp [World.vis, hv]

/-- storing a new state for `v`: the other parts of the relation carry over -/
theorem Rel.mk' {v ty : Nat} {w' : World} {s' : Spec} (hinv : w'.Inv) (hf : w'.fault = none) (d' : VecSt)
    (hv : w'.vecs[v]? = some d') (hl : d'.live = true) (hty : d'.ty = ty) (habs : d'.abs = s'.items.map Cell.val)
    (hn : w'.created = s'.next) : Rel v ty w' s' :=
  ⟨hinv, hf, ⟨d', hv, hl, hty, habs⟩, hn⟩

theorem set_get (w : World) (v : Nat) (d x : VecSt) (hv : w.vecs[v]? = some d) : (w.vecs.set v x)[v]? = some x := by
  have hlt : v < w.vecs.length := (List.getElem?_eq_some_iff.mp hv).1
  simp [hlt]

/-- `push` of an owned value -/
theorem step_push (cfg : Cfg) (v ty : Nat) (w : World) (s : Spec) (h : Rel v ty w s) :
    ∃ s', Spec.Step s .push s' ∧ Rel v ty (step cfg (VOp.push.toOp v ty) w).1 s' ∧
      (step cfg (VOp.push.toOp v ty) w).2.notUb := by
  obtain ⟨hinv, hf, ⟨d, hv, hl, hty, habs⟩, hn⟩ := h
  have hcore : Hist.Core (VOp.push.toOp v ty) := trivial
  have hvalid : Hist.Valid w.vecs (VOp.push.toOp v ty) := ⟨⟨d, hv, hl⟩, by intro u i dp hh; cases hh⟩
  obtain ⟨hinv', hnub⟩ := Hist.step_inv cfg _ w hinv hcore hvalid
  have hg := hinv.good v d hv
  cases hr : d.reserveOne with
  | ok p =>
    obtain ⟨d1, es⟩ := p
    obtain ⟨hroom, hlen1, ha, hw1, hty1, _, _, _, _, _, hl1⟩ := reserveOne_spec d d1 es hg.wf hr
    have hvb : w.bump.vecs[v]? = some d := hv
    have hex := pushUnchecked_plain w.bump v w.created (.wrapper w.created ty) (Val.Plain.wrapper _ _) d d1 es hvb hl hg.wf hr
    have hstep : step cfg (VOp.push.toOp v ty) w =
        ({ w.bump with vecs := w.bump.vecs.set v (d1.pushCell (.val w.created)), ev := es.reverse ++ w.bump.ev }, .ok []) := by
      have hb : ({ w with created := w.created + 1 } : World) = w.bump := rfl
      simp only [VOp.toOp, step, mkVal, WM.bind_apply, fresh, WM.pure_apply, push, hb, getVec_ok w.bump v d hvb hl, valTy, hty,
        ne_eq, not_true_eq_false, if_false, hex]
    refine ⟨⟨s.items ++ [s.next], s.next + 1⟩, Spec.Step.push s, ?_, hnub⟩
    rw [hstep] at hinv' ⊢
    refine Rel.mk' hinv' (by simpa [World.bump] using hf) (d1.pushCell (.val w.created)) (set_get w.bump v d _ hvb)
      (by simp [VecSt.pushCell, hl1, hl]) (by simp [VecSt.pushCell, hty1, hty]) ?_ (by simp [World.bump, hn])
    rw [VecSt.pushCell_abs d1 _ hw1, ha, habs, hn]; simp
  | panic m =>
    refine ⟨⟨s.items, s.next + 1⟩, Spec.Step.pushRefused s, ?_, hnub⟩
    have hvb : w.bump.vecs[v]? = some d := hv
    have hstep : step cfg (VOp.push.toOp v ty) w =
        (logDrop d.hasDrop w.created { w.bump with fault := none }, .panic m) := by
      have hb : ({ w with created := w.created + 1 } : World) = w.bump := rfl
      simp only [VOp.toOp, step, mkVal, WM.bind_apply, fresh, WM.pure_apply, push, hb, getVec_ok w.bump v d hvb hl, valTy, hty,
        ne_eq, not_true_eq_false, if_false, pushUnchecked, WM.onUnwind, vecOp, hr, WM.lift, valDrop, dropElem, WM.modify_apply]
      cases d.hasDrop <;> simp [tick, logDrop, WM.pure_apply]
    rw [hstep] at hinv' ⊢
    exact Rel.mk' hinv' rfl d (by simpa [logDrop] using hvb) hl hty habs (by simp [logDrop, World.bump, hn])
  | ub m =>
    have := reserveOne_notUb d
    rw [hr] at this; exact this.elim

/-- `push` through the typed view -/
theorem step_tpush (cfg : Cfg) (v ty : Nat) (w : World) (s : Spec) (h : Rel v ty w s) :
    ∃ s', Spec.Step s .tpush s' ∧ Rel v ty (step cfg (VOp.tpush.toOp v ty) w).1 s' ∧
      (step cfg (VOp.tpush.toOp v ty) w).2.notUb := by
  obtain ⟨hinv, hf, ⟨d, hv, hl, hty, habs⟩, hn⟩ := h
  have hcore : Hist.Core (VOp.tpush.toOp v ty) := trivial
  have hvalid : Hist.Valid w.vecs (VOp.tpush.toOp v ty) := ⟨d, hv, hl⟩
  obtain ⟨hinv', hnub⟩ := Hist.step_inv cfg _ w hinv hcore hvalid
  have hg := hinv.good v d hv
  have hvb : w.bump.vecs[v]? = some d := hv
  have hb : ({ w with created := w.created + 1 } : World) = w.bump := rfl
  cases hr : d.reserveOne with
  | ok p =>
    obtain ⟨d1, es⟩ := p
    obtain ⟨hroom, hlen1, ha, hw1, hty1, _, _, _, _, _, hl1⟩ := reserveOne_spec d d1 es hg.wf hr
    have hex := pushUnchecked_plain w.bump v w.created (.wrapper w.created d.ty) (Val.Plain.wrapper _ _) d d1 es hvb hl hg.wf hr
    have hstep : step cfg (VOp.tpush.toOp v ty) w =
        ({ w.bump with vecs := w.bump.vecs.set v (d1.pushCell (.val w.created)), ev := es.reverse ++ w.bump.ev }, .ok []) := by
      simp only [VOp.toOp, step, WM.bind_apply, getVec_ok w v d hv hl, fresh, WM.pure_apply, hb, hex]
    refine ⟨⟨s.items ++ [s.next], s.next + 1⟩, Spec.Step.tpush s, ?_, hnub⟩
    rw [hstep] at hinv' ⊢
    refine Rel.mk' hinv' (by simpa [World.bump] using hf) (d1.pushCell (.val w.created)) (set_get w.bump v d _ hvb)
      (by simp [VecSt.pushCell, hl1, hl]) (by simp [VecSt.pushCell, hty1, hty]) ?_ (by simp [World.bump, hn])
    rw [VecSt.pushCell_abs d1 _ hw1, ha, habs, hn]; simp
  | panic m =>
    refine ⟨⟨s.items, s.next + 1⟩, Spec.Step.tpushRefused s, ?_, hnub⟩
    have hstep : step cfg (VOp.tpush.toOp v ty) w =
        (logDrop d.hasDrop w.created { w.bump with fault := none }, .panic m) := by
      simp only [VOp.toOp, step, WM.bind_apply, getVec_ok w v d hv hl, fresh, WM.pure_apply, hb, getVec_ok w.bump v d hvb hl,
        pushUnchecked, WM.onUnwind, vecOp, hr, WM.lift, valDrop, dropElem, WM.modify_apply]
      cases d.hasDrop <;> simp [tick, logDrop, WM.pure_apply]
    rw [hstep] at hinv' ⊢
    exact Rel.mk' hinv' rfl d (by simpa [logDrop] using hvb) hl hty habs (by simp [logDrop, World.bump, hn])
  | ub m =>
    have := reserveOne_notUb d
    rw [hr] at this; exact this.elim

theorem map_insertIdx' {α β} (f : α → β) (l : List α) (i : Nat) (a : α) :
    (l.insertIdx i a).map f = (l.map f).insertIdx i (f a) := by
  induction l generalizing i with
  | nil => cases i <;> simp [List.insertIdx]
  | cons x xs ih =>
    cases i with
    | zero => simp [List.insertIdx]
    | succ j => simp [List.insertIdx_succ_cons, ih]

theorem map_eraseIdx' {α β} (f : α → β) (l : List α) (i : Nat) : (l.eraseIdx i).map f = (l.map f).eraseIdx i := by
  induction l generalizing i with
  | nil => simp
  | cons x xs ih =>
    cases i with
    | zero => simp
    | succ j => simp [ih]

theorem abs_len {d : VecSt} {items : List Nat} (hwf : d.WF) (habs : d.abs = items.map Cell.val) : items.length = d.len := by
  have := VecSt.abs_length hwf
  rw [habs] at this; simpa using this

/-- the shared part of `insert` / typed `insert`: what `insert_unchecked` of a fresh wrapper does -/
theorem insert_core (v ty i : Nat) (w : World) (s : Spec) (d : VecSt) (hinv : w.Inv) (hf : w.fault = none)
    (hv : w.vecs[v]? = some d) (hl : d.live = true) (hty : d.ty = ty) (habs : d.abs = s.items.map Cell.val)
    (hn : w.created = s.next) (hinv' : (insertUnchecked v i (.wrapper w.created ty) w.bump).1.Inv) :
    ∃ s', (s' = ⟨s.items.insertIdx i s.next, s.next + 1⟩ ∧ i ≤ s.items.length ∨ s' = ⟨s.items, s.next + 1⟩) ∧
      Rel v ty (insertUnchecked v i (.wrapper w.created ty) w.bump).1 s' := by
  have hg := hinv.good v d hv
  have hvb : w.bump.vecs[v]? = some d := hv
  have hlen := abs_len hg.wf habs
  by_cases hi : i ≤ d.len
  · cases hr : d.reserveOne with
    | ok p =>
      obtain ⟨d1, es⟩ := p
      obtain ⟨hroom, hlen1, ha, hw1, hty1, _, _, _, _, _, hl1⟩ := reserveOne_spec d d1 es hg.wf hr
      have hex := insertUnchecked_plain w.bump v i w.created (.wrapper w.created ty) (Val.Plain.wrapper _ _) d d1 es hvb hl hg.wf hi hr
      refine ⟨⟨s.items.insertIdx i s.next, s.next + 1⟩, Or.inl ⟨rfl, by omega⟩, ?_⟩
      rw [hex] at hinv' ⊢
      refine Rel.mk' hinv' (by simpa [World.bump] using hf) (d1.insertAt i (.val w.created)) (set_get w.bump v d _ hvb)
        (by simp [VecSt.insertAt, hl1, hl]) (by simp [VecSt.insertAt, hty1, hty]) ?_ (by simp [World.bump, hn])
      rw [VecSt.insertAt_abs d1 i _ hw1 (by omega), ha, habs, hn, map_insertIdx']
    | panic m =>
      refine ⟨⟨s.items, s.next + 1⟩, Or.inr rfl, ?_⟩
      have hnot : ¬ i > d.len := by omega
      have hex : insertUnchecked v i (.wrapper w.created ty) w.bump =
          (logDrop d.hasDrop w.created { w.bump with fault := none }, .panic m) := by
        simp only [insertUnchecked, WM.bind_apply, getVec_ok w.bump v d hvb hl, hnot, if_false, WM.onUnwind, vecOp, hr,
          WM.lift, valDrop, dropElem, WM.modify_apply]
        cases d.hasDrop <;> simp [tick, logDrop, WM.pure_apply]
      rw [hex] at hinv' ⊢
      exact Rel.mk' hinv' rfl d (by simpa [logDrop] using hvb) hl hty habs (by simp [logDrop, World.bump, hn])
    | ub m =>
      have := reserveOne_notUb d
      rw [hr] at this; exact this.elim
  · refine ⟨⟨s.items, s.next + 1⟩, Or.inr rfl, ?_⟩
    have hgt : i > d.len := by omega
    have hex : insertUnchecked v i (.wrapper w.created ty) w.bump =
        (logDrop d.hasDrop w.created { w.bump with fault := none }, .panic "Index out of range!") := by
      simp only [insertUnchecked, WM.bind_apply, getVec_ok w.bump v d hvb hl, hgt, if_true, WM.onUnwind, WM.panic_apply,
        valDrop, dropElem, WM.modify_apply]
      cases d.hasDrop <;> simp [tick, logDrop, WM.pure_apply]
    rw [hex] at hinv' ⊢
    exact Rel.mk' hinv' rfl d (by simpa [logDrop] using hvb) hl hty habs (by simp [logDrop, World.bump, hn])

theorem fst_bind_pure {α β} (m : WM α) (b : β) (w : World) : ((do let _ ← m; pure b : WM β) w).1 = (m w).1 := by
  simp only [WM.bind_apply]
  cases m w with
  | mk w' r => cases r <;> rfl

theorem step_insert (cfg : Cfg) (v ty i : Nat) (w : World) (s : Spec) (h : Rel v ty w s) :
    ∃ s', Spec.Step s (.insert i) s' ∧ Rel v ty (step cfg ((VOp.insert i).toOp v ty) w).1 s' ∧
      (step cfg ((VOp.insert i).toOp v ty) w).2.notUb := by
  obtain ⟨hinv, hf, ⟨d, hv, hl, hty, habs⟩, hn⟩ := h
  have hcore : Hist.Core ((VOp.insert i).toOp v ty) := trivial
  have hvalid : Hist.Valid w.vecs ((VOp.insert i).toOp v ty) := ⟨⟨d, hv, hl⟩, by intro u j dp hh; cases hh⟩
  obtain ⟨hinv', hnub⟩ := Hist.step_inv cfg _ w hinv hcore hvalid
  have hvb : w.bump.vecs[v]? = some d := hv
  have hb : ({ w with created := w.created + 1 } : World) = w.bump := rfl
  have hfst : (step cfg ((VOp.insert i).toOp v ty) w).1 = (insertUnchecked v i (.wrapper w.created ty) w.bump).1 := by
    have : step cfg ((VOp.insert i).toOp v ty) w =
        (do let _ ← insertUnchecked v i (.wrapper w.created ty); pure [] : WM Out) w.bump := by
      simp only [VOp.toOp, step, mkVal, WM.bind_apply, fresh, WM.pure_apply, World.insert, hb, getVec_ok w.bump v d hvb hl, valTy, hty,
        ne_eq, not_true_eq_false, if_false]
    rw [this, fst_bind_pure]
  rw [hfst] at hinv' ⊢
  obtain ⟨s', hs', hrel⟩ := insert_core v ty i w s d hinv hf hv hl hty habs hn hinv'
  refine ⟨s', ?_, hrel, hnub⟩
  rcases hs' with ⟨rfl, hi⟩ | rfl
  · exact Spec.Step.insert s i hi
  · exact Spec.Step.insertRefused s i

theorem step_tinsert (cfg : Cfg) (v ty i : Nat) (w : World) (s : Spec) (h : Rel v ty w s) :
    ∃ s', Spec.Step s (.tinsert i) s' ∧ Rel v ty (step cfg ((VOp.tinsert i).toOp v ty) w).1 s' ∧
      (step cfg ((VOp.tinsert i).toOp v ty) w).2.notUb := by
  obtain ⟨hinv, hf, ⟨d, hv, hl, hty, habs⟩, hn⟩ := h
  have hcore : Hist.Core ((VOp.tinsert i).toOp v ty) := trivial
  have hvalid : Hist.Valid w.vecs ((VOp.tinsert i).toOp v ty) := ⟨d, hv, hl⟩
  obtain ⟨hinv', hnub⟩ := Hist.step_inv cfg _ w hinv hcore hvalid
  have hb : ({ w with created := w.created + 1 } : World) = w.bump := rfl
  have hfst : (step cfg ((VOp.tinsert i).toOp v ty) w).1 = (insertUnchecked v i (.wrapper w.created ty) w.bump).1 := by
    have : step cfg ((VOp.tinsert i).toOp v ty) w =
        (do let _ ← insertUnchecked v i (.wrapper w.created ty); pure [] : WM Out) w.bump := by
      simp only [VOp.toOp, step, WM.bind_apply, getVec_ok w v d hv hl, fresh, WM.pure_apply, hb, hty]
    rw [this, fst_bind_pure]
  rw [hfst] at hinv' ⊢
  obtain ⟨s', hs', hrel⟩ := insert_core v ty i w s d hinv hf hv hl hty habs hn hinv'
  refine ⟨s', ?_, hrel, hnub⟩
  rcases hs' with ⟨rfl, hi⟩ | rfl
  · exact Spec.Step.tinsert s i hi
  · exact Spec.Step.tinsertRefused s i

/-- a cell of the visible part is the abstract item at that index -/
theorem cell_of_abs {d : VecSt} {items : List Nat} (hg : d.Good) (habs : d.abs = items.map Cell.val) (j : Nat)
    (hj : j < d.len) : d.cells.get j = .val (items.getD j 0) := by
  have hlen := abs_len hg.wf habs
  have h1 := hg.wf.len_le
  have hget : d.abs[j]? = some (d.cells.get j) := by
    simp only [VecSt.abs, List.getElem?_take, hj, if_true]
    rw [Mem.get_eq]
    have : j < d.cells.length := by omega
    simp [this]
  rw [habs] at hget
  have hj' : j < items.length := by omega
  simp only [List.getElem?_map, List.getElem?_eq_getElem hj', Option.map_some, Option.some.injEq] at hget
  rw [← hget]
  simp [List.getD_eq_getElem?_getD, List.getElem?_eq_getElem hj']

theorem step_remove (cfg : Cfg) (v ty i : Nat) (w : World) (s : Spec) (h : Rel v ty w s) :
    ∃ s', Spec.Step s (.remove i) s' ∧ Rel v ty (step cfg ((VOp.remove i).toOp v ty) w).1 s' ∧
      (step cfg ((VOp.remove i).toOp v ty) w).2.notUb := by
  obtain ⟨hinv, hf, ⟨d, hv, hl, hty, habs⟩, hn⟩ := h
  have hcore : Hist.Core ((VOp.remove i).toOp v ty) := trivial
  have hvalid : Hist.Valid w.vecs ((VOp.remove i).toOp v ty) := ⟨⟨d, hv, hl⟩, trivial⟩
  obtain ⟨hinv', hnub⟩ := Hist.step_inv cfg _ w hinv hcore hvalid
  have hg := hinv.good v d hv
  have hlen := abs_len hg.wf habs
  by_cases hi : i < d.len
  · have hc := cell_of_abs hg habs i hi
    have hex := remove_drop_exec cfg w v i _ d hv hl hg.wf hi hc hf
    refine ⟨⟨s.items.eraseIdx i, s.next⟩, Spec.Step.remove s i (by omega), ?_, hnub⟩
    simp only [VOp.toOp] at hinv' ⊢
    rw [hex] at hinv' ⊢
    refine Rel.mk' hinv' (by simpa [logDrop] using hf) (d.removeAt i) (by simpa [logDrop] using set_get w v d _ hv)
      (by simp [VecSt.removeAt, hl]) (by simp [VecSt.removeAt, hty]) ?_ (by simp [logDrop, hn])
    rw [VecSt.removeAt_abs d i hg.wf hi, habs, map_eraseIdx']
  · refine ⟨s, Spec.Step.removeOut s i (by omega), ?_, hnub⟩
    have hex : step cfg ((VOp.remove i).toOp v ty) w = ({ w with fault := none }, .panic "Index out of range!") := by
      simp only [VOp.toOp, step, WM.bind_apply, getVec_ok w v d hv hl, hi, if_false, WM.panic_apply]
    rw [hex] at hinv' ⊢
    exact Rel.mk' hinv' rfl d hv hl hty habs hn

theorem step_swapRemove (cfg : Cfg) (v ty i : Nat) (w : World) (s : Spec) (h : Rel v ty w s) :
    ∃ s', Spec.Step s (.swapRemove i) s' ∧ Rel v ty (step cfg ((VOp.swapRemove i).toOp v ty) w).1 s' ∧
      (step cfg ((VOp.swapRemove i).toOp v ty) w).2.notUb := by
  obtain ⟨hinv, hf, ⟨d, hv, hl, hty, habs⟩, hn⟩ := h
  have hcore : Hist.Core ((VOp.swapRemove i).toOp v ty) := trivial
  have hvalid : Hist.Valid w.vecs ((VOp.swapRemove i).toOp v ty) := ⟨⟨d, hv, hl⟩, trivial⟩
  obtain ⟨hinv', hnub⟩ := Hist.step_inv cfg _ w hinv hcore hvalid
  have hg := hinv.good v d hv
  have hlen := abs_len hg.wf habs
  by_cases hi : i < d.len
  · have hc := cell_of_abs hg habs i hi
    have hex := swap_remove_drop_exec cfg w v i _ d hv hl hg.wf hi hc hf
    refine ⟨_, Spec.Step.swapRemove s i (by omega), ?_, hnub⟩
    simp only [VOp.toOp] at hinv' ⊢
    rw [hex] at hinv' ⊢
    refine Rel.mk' hinv' (by simpa [logDrop] using hf) (d.swapRemoveAt i) (by simpa [logDrop] using set_get w v d _ hv)
      (by simp [VecSt.swapRemoveAt, hl]) (by simp [VecSt.swapRemoveAt, hty]) ?_ (by simp [logDrop, hn])
    rw [VecSt.swapRemoveAt_abs d i hg.wf hi, habs, cell_of_abs hg habs (d.len - 1) (by omega), hlen]
    simp [List.map_take, List.map_set]
  · refine ⟨s, Spec.Step.swapRemoveOut s i (by omega), ?_, hnub⟩
    have hex : step cfg ((VOp.swapRemove i).toOp v ty) w = ({ w with fault := none }, .panic "Index out of range!") := by
      simp only [VOp.toOp, step, WM.bind_apply, getVec_ok w v d hv hl, hi, if_false, WM.panic_apply]
    rw [hex] at hinv' ⊢
    exact Rel.mk' hinv' rfl d hv hl hty habs hn

theorem step_pop (cfg : Cfg) (v ty : Nat) (w : World) (s : Spec) (h : Rel v ty w s) :
    ∃ s', Spec.Step s .pop s' ∧ Rel v ty (step cfg (VOp.pop.toOp v ty) w).1 s' ∧
      (step cfg (VOp.pop.toOp v ty) w).2.notUb := by
  obtain ⟨hinv, hf, ⟨d, hv, hl, hty, habs⟩, hn⟩ := h
  have hcore : Hist.Core (VOp.pop.toOp v ty) := trivial
  have hvalid : Hist.Valid w.vecs (VOp.pop.toOp v ty) := ⟨⟨d, hv, hl⟩, trivial⟩
  obtain ⟨hinv', hnub⟩ := Hist.step_inv cfg _ w hinv hcore hvalid
  have hg := hinv.good v d hv
  have hlen := abs_len hg.wf habs
  refine ⟨_, Spec.Step.pop s, ?_, hnub⟩
  by_cases h0 : d.len = 0
  · have hex : step cfg (VOp.pop.toOp v ty) w = (w, .ok ["N"]) := by
      simp only [VOp.toOp, step, WM.bind_apply, getVec_ok w v d hv hl, h0, if_true, WM.pure_apply]
    rw [hex]
    have : s.items = [] := by cases hs : s.items with
      | nil => rfl
      | cons x xs => rw [hs] at hlen; simp at hlen; omega
    exact Rel.mk' hinv hf d hv hl hty (by rw [habs, this]; rfl) hn
  · have hc := cell_of_abs hg habs (d.len - 1) (by omega)
    have hex := pop_drop_exec cfg w v _ d hv hl hg.wf h0 hc hf
    simp only [VOp.toOp] at hinv' ⊢
    rw [hex] at hinv' ⊢
    refine Rel.mk' hinv' (by simpa [logDrop] using hf) { d with len := d.len - 1 } (by simpa [logDrop] using set_get w v d _ hv)
      hl hty ?_ (by simp [logDrop, hn])
    have h1 := hg.wf.len_le
    have : ({ d with len := d.len - 1 } : VecSt).abs = d.abs.take (d.len - 1) := by
      simp only [VecSt.abs, List.take_take]
      congr 1; omega
    rw [this, habs, hlen, List.map_take]

theorem step_clear (cfg : Cfg) (v ty : Nat) (w : World) (s : Spec) (h : Rel v ty w s) :
    ∃ s', Spec.Step s .clear s' ∧ Rel v ty (step cfg (VOp.clear.toOp v ty) w).1 s' ∧
      (step cfg (VOp.clear.toOp v ty) w).2.notUb := by
  obtain ⟨hinv, hf, ⟨d, hv, hl, hty, habs⟩, hn⟩ := h
  have hcore : Hist.Core (VOp.clear.toOp v ty) := trivial
  have hvalid : Hist.Valid w.vecs (VOp.clear.toOp v ty) := ⟨d, hv, hl⟩
  obtain ⟨hinv', hnub⟩ := Hist.step_inv cfg _ w hinv hcore hvalid
  have hg := hinv.good v d hv
  have hex := clear_exec cfg w v d hv hl hg.wf hg.init hf
  refine ⟨_, Spec.Step.clear s, ?_, hnub⟩
  simp only [VOp.toOp] at hinv' ⊢
  rw [hex] at hinv' ⊢
  have hlt : v < w.vecs.length := (List.getElem?_eq_some_iff.mp hv).1
  refine Rel.mk' hinv' (by simpa using hf) { d with len := 0 } (by simp [World.upd, hlt]) hl hty (by simp [VecSt.abs])
    (by simp [hn])

/-- the refusal alternative is only for a storage that refuses: with room (`len < capacity`) a `push` appends and an
in-range `insert` inserts -/
theorem push_with_room (cfg : Cfg) (v ty : Nat) (w : World) (s : Spec) (h : Rel v ty w s) (d : VecSt)
    (hv : w.vecs[v]? = some d) (hroom : d.len < d.cap) :
    Rel v ty (step cfg (VOp.push.toOp v ty) w).1 ⟨s.items ++ [s.next], s.next + 1⟩ := by
  obtain ⟨hinv, hf, ⟨d', hv', hl, hty, habs⟩, hn⟩ := h
  rw [hv] at hv'; cases hv'
  have hcore : Hist.Core (VOp.push.toOp v ty) := trivial
  have hvalid : Hist.Valid w.vecs (VOp.push.toOp v ty) := ⟨⟨d, hv, hl⟩, by intro u i dp hh; cases hh⟩
  obtain ⟨hinv', _⟩ := Hist.step_inv cfg _ w hinv hcore hvalid
  have hg := hinv.good v d hv
  have hr : d.reserveOne = .ok (d, []) := by
    have : ¬ d.len = d.cap := by omega
    simp [VecSt.reserveOne, this]
  have hvb : w.bump.vecs[v]? = some d := hv
  have hex := pushUnchecked_plain w.bump v w.created (.wrapper w.created ty) (Val.Plain.wrapper _ _) d d [] hvb hl hg.wf hr
  have hb : ({ w with created := w.created + 1 } : World) = w.bump := rfl
  have hstep : step cfg (VOp.push.toOp v ty) w =
      ({ w.bump with vecs := w.bump.vecs.set v (d.pushCell (.val w.created)), ev := [].reverse ++ w.bump.ev }, .ok []) := by
    simp only [VOp.toOp, step, mkVal, WM.bind_apply, fresh, WM.pure_apply, push, hb, getVec_ok w.bump v d hvb hl, valTy, hty,
      ne_eq, not_true_eq_false, if_false, hex]
  rw [hstep] at hinv' ⊢
  refine Rel.mk' hinv' (by simpa [World.bump] using hf) (d.pushCell (.val w.created)) (set_get w.bump v d _ hvb)
    (by simp [VecSt.pushCell, hl]) (by simp [VecSt.pushCell, hty]) ?_ (by simp [World.bump, hn])
  rw [VecSt.pushCell_abs d _ hg.wf, habs, hn]; simp

theorem step_drain (cfg : Cfg) (v ty a b : Nat) (w : World) (s : Spec) (h : Rel v ty w s) :
    ∃ s', Spec.Step s (.drain a b) s' ∧ Rel v ty (step cfg ((VOp.drain a b).toOp v ty) w).1 s' ∧
      (step cfg ((VOp.drain a b).toOp v ty) w).2.notUb := by
  obtain ⟨hinv, hf, ⟨d, hv, hl, hty, habs⟩, hn⟩ := h
  have hcore : Hist.Core ((VOp.drain a b).toOp v ty) := trivial
  have hvalid : Hist.Valid w.vecs ((VOp.drain a b).toOp v ty) := ⟨⟨d, hv, hl⟩, by intro p hp; cases hp⟩
  obtain ⟨hinv', hnub⟩ := Hist.step_inv cfg _ w hinv hcore hvalid
  have hg := hinv.good v d hv
  have hlen := abs_len hg.wf habs
  have h1 := hg.wf.len_le; have h2 := hg.wf.cells_le
  have hlt : v < w.vecs.length := (List.getElem?_eq_some_iff.mp hv).1
  by_cases hr : a ≤ b ∧ b ≤ d.len
  · obtain ⟨hab, hbl⟩ := hr
    have hir : intoRange d.len (.incl a) (.excl b) = .ok (a, b) := by
      simp [intoRange, rangeStart, rangeEnd, hab, hbl]
    let d0 : VecSt := { d with len := a }
    let it : RangeIt := { v := v, typed := false, start := a, end0 := b, origLen := d.len, index := a, end_ := b }
    have hv0 : (w.upd v d0).vecs[v]? = some d0 := World.upd_get w v d0 hlt
    have hinit : d0.InitRange a (b - a) := by
      intro j hj
      have := hg.init (a + j) (by omega)
      simpa using this
    have hex := drainDrop_exec (w.upd v d0) it d0 hv0 hl (by simpa using hf) (Nat.le_refl _) hab (Nat.le_refl _) hbl h1 h2 hinit
    have hstep : step cfg ((VOp.drain a b).toOp v ty) w =
        (((logDrops d0.hasDrop (d0.idsRange a (b - a)) (w.upd v d0)).upd v (d0.drainClose a b d.len)), .ok [toString (b - a)]) := by
      simp only [VOp.toOp, step, drain, WM.bind_apply, getVec_ok w v d hv hl, hir, WM.lift_ok, setLen, setVec_apply, eatLoop,
        WM.pure_apply]
      rw [show drainDrop { v := v, typed := false, start := a, end0 := b, origLen := d.len, index := a, end_ := b }
            (w.upd v { d with len := a }) = _ from hex]
    refine ⟨_, Spec.Step.drain s a b ⟨hab, by omega⟩, ?_, hnub⟩
    rw [hstep] at hinv' ⊢
    refine Rel.mk' hinv' (by simpa using hf) (d0.drainClose a b d.len) (by simp [World.upd, hlt]) hl hty ?_ (by simp [hn])
    rw [VecSt.drainClose_abs d0 a b d.len hab hbl h1]
    have : d.cells.take d.len = s.items.map Cell.val := habs
    show d.cells.take a ++ (d.cells.take d.len).drop b = _
    have hta : d.cells.take a = (d.cells.take d.len).take a := by rw [List.take_take]; congr 1; omega
    rw [hta, this, List.map_append, List.map_take, List.map_drop]
  · have hex : step cfg ((VOp.drain a b).toOp v ty) w =
        ({ w with fault := none }, .panic (if a ≤ b then "assertion failed: end <= len" else "assertion failed: start <= end")) := by
      simp only [VOp.toOp, step, drain, WM.bind_apply, getVec_ok w v d hv hl, intoRange, rangeStart, rangeEnd]
      by_cases hab : a ≤ b
      · have : ¬ b ≤ d.len := fun hb => hr ⟨hab, hb⟩
        simp [hab, this, WM.lift]
      · simp [hab, WM.lift]
    refine ⟨s, Spec.Step.drainOut s a b (by omega), ?_, hnub⟩
    rw [hex] at hinv' ⊢
    exact Rel.mk' hinv' rfl d hv hl hty habs hn

/-- typed `remove(i)` with `i < len`: the element leaves into the caller's hands, nothing is destroyed -/
theorem tremove_exec (cfg : Cfg) (w : World) (v i id : Nat) (d : VecSt)
    (hv : w.vecs[v]? = some d) (hl : d.live = true) (hwf : d.WF) (hi : i < d.len)
    (hc : d.cells.get i = .val id) :
    step cfg (.tremove v i) w =
      ({ w with vecs := w.vecs.set v (d.removeAt i), held := id :: w.held }, .ok [cfg.tok id]) := by
  have hlt : v < w.vecs.length := (List.getElem?_eq_some_iff.mp hv).1
  have hd : w.vecs[v] = d := (List.getElem?_eq_some_iff.mp hv).2
  have h1 := hwf.len_le; have h2 := hwf.cells_le
  have hb1 : i < d.cap := by omega
  have hb2 : i + 1 + (d.len - 1 - i) ≤ d.cap := by omega
  have hb3 : i + (d.len - 1 - i) ≤ d.cap := by omega
  simp [step, getVec, hl, hi, hlt, hd, setLen, sinkHandle, hSlot, readElem, VecSt.readElem_ok, hb1, hc,
    hConsume, moveElems, VecSt.moveElems_ok, hb2, hb3, World.upd, VecSt.removeAt, hold]

theorem tswap_remove_exec (cfg : Cfg) (w : World) (v i id : Nat) (d : VecSt)
    (hv : w.vecs[v]? = some d) (hl : d.live = true) (hwf : d.WF) (hi : i < d.len)
    (hc : d.cells.get i = .val id) :
    step cfg (.tswapRemove v i) w =
      ({ w with vecs := w.vecs.set v (d.swapRemoveAt i), held := id :: w.held }, .ok [cfg.tok id]) := by
  have hlt : v < w.vecs.length := (List.getElem?_eq_some_iff.mp hv).1
  have hd : w.vecs[v] = d := (List.getElem?_eq_some_iff.mp hv).2
  have h1 := hwf.len_le; have h2 := hwf.cells_le
  have hb1 : i < d.cap := by omega
  have hb2 : d.len - 1 < d.cap := by omega
  have e1 : d.cells.ensure (i + 1) = d.cells := ensure_of_le _ _ (by omega)
  by_cases hlast : i = d.len - 1
  · have hi' : d.len - 1 < d.len := by omega
    have hc' : d.cells.get (d.len - 1) = .val id := by rw [← hlast]; exact hc
    simp [step, getVec, hl, hi', hlt, hd, setLen, sinkHandle, hSlot, readElem, VecSt.readElem_ok, hb2, hc',
      hConsume, World.upd, VecSt.swapRemoveAt, hlast, hold]
  · simp [step, getVec, hl, hi, hlt, hd, setLen, sinkHandle, hSlot, readElem, VecSt.readElem_ok, hb1, hc,
      hConsume, World.upd, VecSt.swapRemoveAt, hlast, World.writeCell, VecSt.writeCell_ok, hb2, e1, hold]

theorem tpop_exec (cfg : Cfg) (w : World) (v id : Nat) (d : VecSt)
    (hv : w.vecs[v]? = some d) (hl : d.live = true) (hwf : d.WF) (hne : d.len ≠ 0)
    (hc : d.cells.get (d.len - 1) = .val id) :
    step cfg (.tpop v) w =
      ({ w with vecs := w.vecs.set v { d with len := d.len - 1 }, held := id :: w.held }, .ok [cfg.tok id]) := by
  have hlt : v < w.vecs.length := (List.getElem?_eq_some_iff.mp hv).1
  have hd : w.vecs[v] = d := (List.getElem?_eq_some_iff.mp hv).2
  have h1 := hwf.len_le; have h2 := hwf.cells_le
  have hb1 : d.len - 1 < d.cap := by omega
  simp [step, getVec, hl, hne, hlt, hd, setLen, sinkHandle, hSlot, readElem, VecSt.readElem_ok, hb1, hc,
    hConsume, World.upd, hold]

theorem step_tremove (cfg : Cfg) (v ty i : Nat) (w : World) (s : Spec) (h : Rel v ty w s) :
    ∃ s', Spec.Step s (.tremove i) s' ∧ Rel v ty (step cfg ((VOp.tremove i).toOp v ty) w).1 s' ∧
      (step cfg ((VOp.tremove i).toOp v ty) w).2.notUb := by
  obtain ⟨hinv, hf, ⟨d, hv, hl, hty, habs⟩, hn⟩ := h
  have hcore : Hist.Core ((VOp.tremove i).toOp v ty) := trivial
  have hvalid : Hist.Valid w.vecs ((VOp.tremove i).toOp v ty) := ⟨d, hv, hl⟩
  obtain ⟨hinv', hnub⟩ := Hist.step_inv cfg _ w hinv hcore hvalid
  have hg := hinv.good v d hv
  have hlen := abs_len hg.wf habs
  by_cases hi : i < d.len
  · have hc := cell_of_abs hg habs i hi
    have hex := tremove_exec cfg w v i _ d hv hl hg.wf hi hc
    refine ⟨⟨s.items.eraseIdx i, s.next⟩, Spec.Step.tremove s i (by omega), ?_, hnub⟩
    simp only [VOp.toOp] at hinv' ⊢
    rw [hex] at hinv' ⊢
    refine Rel.mk' hinv' hf (d.removeAt i) (set_get w v d _ hv)
      (by simp [VecSt.removeAt, hl]) (by simp [VecSt.removeAt, hty]) ?_ hn
    rw [VecSt.removeAt_abs d i hg.wf hi, habs, map_eraseIdx']
  · refine ⟨s, Spec.Step.tremoveOut s i (by omega), ?_, hnub⟩
    have hex : step cfg ((VOp.tremove i).toOp v ty) w = ({ w with fault := none }, .panic "Index out of range!") := by
      simp only [VOp.toOp, step, WM.bind_apply, getVec_ok w v d hv hl, hi, if_false, WM.panic_apply]
    rw [hex] at hinv' ⊢
    exact Rel.mk' hinv' rfl d hv hl hty habs hn

theorem step_tswapRemove (cfg : Cfg) (v ty i : Nat) (w : World) (s : Spec) (h : Rel v ty w s) :
    ∃ s', Spec.Step s (.tswapRemove i) s' ∧ Rel v ty (step cfg ((VOp.tswapRemove i).toOp v ty) w).1 s' ∧
      (step cfg ((VOp.tswapRemove i).toOp v ty) w).2.notUb := by
  obtain ⟨hinv, hf, ⟨d, hv, hl, hty, habs⟩, hn⟩ := h
  have hcore : Hist.Core ((VOp.tswapRemove i).toOp v ty) := trivial
  have hvalid : Hist.Valid w.vecs ((VOp.tswapRemove i).toOp v ty) := ⟨d, hv, hl⟩
  obtain ⟨hinv', hnub⟩ := Hist.step_inv cfg _ w hinv hcore hvalid
  have hg := hinv.good v d hv
  have hlen := abs_len hg.wf habs
  by_cases hi : i < d.len
  · have hc := cell_of_abs hg habs i hi
    have hex := tswap_remove_exec cfg w v i _ d hv hl hg.wf hi hc
    refine ⟨_, Spec.Step.tswapRemove s i (by omega), ?_, hnub⟩
    simp only [VOp.toOp] at hinv' ⊢
    rw [hex] at hinv' ⊢
    refine Rel.mk' hinv' hf (d.swapRemoveAt i) (set_get w v d _ hv)
      (by simp [VecSt.swapRemoveAt, hl]) (by simp [VecSt.swapRemoveAt, hty]) ?_ hn
    rw [VecSt.swapRemoveAt_abs d i hg.wf hi, habs, cell_of_abs hg habs (d.len - 1) (by omega), hlen]
    simp [List.map_take, List.map_set]
  · refine ⟨s, Spec.Step.tswapRemoveOut s i (by omega), ?_, hnub⟩
    have hex : step cfg ((VOp.tswapRemove i).toOp v ty) w = ({ w with fault := none }, .panic "Index out of range!") := by
      simp only [VOp.toOp, step, WM.bind_apply, getVec_ok w v d hv hl, hi, if_false, WM.panic_apply]
    rw [hex] at hinv' ⊢
    exact Rel.mk' hinv' rfl d hv hl hty habs hn

theorem step_tpop (cfg : Cfg) (v ty : Nat) (w : World) (s : Spec) (h : Rel v ty w s) :
    ∃ s', Spec.Step s .tpop s' ∧ Rel v ty (step cfg (VOp.tpop.toOp v ty) w).1 s' ∧
      (step cfg (VOp.tpop.toOp v ty) w).2.notUb := by
  obtain ⟨hinv, hf, ⟨d, hv, hl, hty, habs⟩, hn⟩ := h
  have hcore : Hist.Core (VOp.tpop.toOp v ty) := trivial
  have hvalid : Hist.Valid w.vecs (VOp.tpop.toOp v ty) := ⟨d, hv, hl⟩
  obtain ⟨hinv', hnub⟩ := Hist.step_inv cfg _ w hinv hcore hvalid
  have hg := hinv.good v d hv
  have hlen := abs_len hg.wf habs
  refine ⟨_, Spec.Step.tpop s, ?_, hnub⟩
  by_cases h0 : d.len = 0
  · have hex : step cfg (VOp.tpop.toOp v ty) w = (w, .ok ["N"]) := by
      simp only [VOp.toOp, step, WM.bind_apply, getVec_ok w v d hv hl, h0, if_true, WM.pure_apply]
    rw [hex]
    have : s.items = [] := by cases hs : s.items with
      | nil => rfl
      | cons x xs => rw [hs] at hlen; simp at hlen; omega
    exact Rel.mk' hinv hf d hv hl hty (by rw [habs, this]; rfl) hn
  · have hc := cell_of_abs hg habs (d.len - 1) (by omega)
    have hex := tpop_exec cfg w v _ d hv hl hg.wf h0 hc
    simp only [VOp.toOp] at hinv' ⊢
    rw [hex] at hinv' ⊢
    refine Rel.mk' hinv' hf { d with len := d.len - 1 } (set_get w v d _ hv) hl hty ?_ hn
    have h1 := hg.wf.len_le
    have : ({ d with len := d.len - 1 } : VecSt).abs = d.abs.take (d.len - 1) := by
      simp only [VecSt.abs, List.take_take]
      congr 1; omega
    rw [this, habs, hlen, List.map_take]

/-- **one step refines the abstract vector** -/
theorem step_refines (cfg : Cfg) (v ty : Nat) (w : World) (s : Spec) (h : Rel v ty w s) (op : VOp) :
    ∃ s', Spec.Step s op s' ∧ Rel v ty (step cfg (op.toOp v ty) w).1 s' ∧ (step cfg (op.toOp v ty) w).2.notUb := by
  cases op with
  | push => exact step_push cfg v ty w s h
  | tpush => exact step_tpush cfg v ty w s h
  | insert i => exact step_insert cfg v ty i w s h
  | tinsert i => exact step_tinsert cfg v ty i w s h
  | pop => exact step_pop cfg v ty w s h
  | remove i => exact step_remove cfg v ty i w s h
  | swapRemove i => exact step_swapRemove cfg v ty i w s h
  | clear => exact step_clear cfg v ty w s h
  | drain a b => exact step_drain cfg v ty a b w s h
  | tpop => exact step_tpop cfg v ty w s h
  | tremove i => exact step_tremove cfg v ty i w s h
  | tswapRemove i => exact step_tswapRemove cfg v ty i w s h

/-- run a history of element-wise operations -/
def runOps (cfg : Cfg) (v ty : Nat) : World → List VOp → World
  | w, [] => w
  | w, op :: ops => runOps cfg v ty (step cfg (op.toOp v ty) w).1 ops

/-- the abstract vector can follow along -/
inductive Spec.Steps : Spec → List VOp → Spec → Prop where
  | nil (s : Spec) : Steps s [] s
  | cons (s s1 s2 : Spec) (op : VOp) (ops : List VOp) : Spec.Step s op s1 → Steps s1 ops s2 → Steps s (op :: ops) s2

/-- **every history refines the abstract vector**: from any world in which vector `v` shows the abstract items (and
which satisfies the invariant, e.g. any reachable world), any sequence of element-wise operations - erased and typed
`push`/`insert`, `pop`/`remove`/`swap_remove` with the handle dropped or (typed) with the value taken, `clear`, `drain(a..b)` dropped unconsumed, with any indices - leads to a world
that shows what the abstract `Vec` shows after some run of the same sequence, and no step faults on memory. -/
theorem history_refines (cfg : Cfg) (v ty : Nat) (ops : List VOp) :
    ∀ (w : World) (s : Spec), Rel v ty w s → ∃ s', Spec.Steps s ops s' ∧ Rel v ty (runOps cfg v ty w ops) s' := by
  induction ops with
  | nil => intro w s h; exact ⟨s, Spec.Steps.nil s, h⟩
  | cons op ops ih =>
    intro w s h
    obtain ⟨s1, hs1, hrel1, _⟩ := step_refines cfg v ty w s h op
    obtain ⟨s2, hs2, hrel2⟩ := ih _ s1 hrel1
    exact ⟨s2, Spec.Steps.cons s s1 s2 op ops hs1 hs2, hrel2⟩

/-- reads: `get(i)` shows the abstract item at `i` (`None` past the end) and changes nothing; `at(i)` likewise, with
the `unwrap` panic past the end -/
theorem get_refines (cfg : Cfg) (v ty i : Nat) (w : World) (s : Spec) (h : Rel v ty w s) :
    step cfg (.get v i false) w =
      (w, .ok [match s.items[i]? with | some id => cfg.tok id | none => "N"]) ∧
    (i < s.items.length → step cfg (.get v i true) w = step cfg (.get v i false) w) := by
  obtain ⟨hinv, hf, ⟨d, hv, hl, hty, habs⟩, hn⟩ := h
  have hg := hinv.good v d hv
  have hlen := abs_len hg.wf habs
  have h1 := hg.wf.len_le; have h2 := hg.wf.cells_le
  by_cases hi : i < d.len
  · have hc := cell_of_abs hg habs i hi
    have hi' : i < s.items.length := by omega
    have hread : readElem v i w = (w, .ok (s.items.getD i 0)) := by
      simp only [readElem, WM.bind_apply, getVec_ok w v d hv hl, WM.lift, VecSt.readElem_ok d i _ (by omega) hc]
    constructor
    · simp only [step, WM.bind_apply, getVec_ok w v d hv hl, hi, if_true, hread, WM.pure_apply,
        List.getElem?_eq_getElem hi']
      simp [List.getD_eq_getElem?_getD, List.getElem?_eq_getElem hi']
    · intro _
      simp only [step, WM.bind_apply, getVec_ok w v d hv hl, hi, if_true]
  · have hi' : ¬ i < s.items.length := by omega
    constructor
    · simp only [step, WM.bind_apply, getVec_ok w v d hv hl, hi, if_false, WM.pure_apply]
      have : s.items[i]? = none := by simp; omega
      simp [this]
    · intro hh; exact (hi' hh).elim

/-- every reachable world (any history of core operations under any fault injection) satisfies the invariant the
relation asks for: the refinement starts from wherever such a history has led -/
theorem rel_of_reach (cfg : Cfg) (w : World) (hr : Hist.Reach cfg w) (hf : w.fault = none) (v : Nat) (d : VecSt)
    (hv : w.vecs[v]? = some d) (hl : d.live = true) :
    ∃ items, Rel v d.ty w ⟨items, w.created⟩ := by
  have hinv := Hist.reach_inv_core cfg w hr
  have hg := hinv.good v d hv
  -- every visible cell is a value: read the identities off
  refine ⟨d.abs.map Cell.idOr0, hinv, hf, ⟨d, hv, hl, rfl, ?_⟩, rfl⟩
  simp only [List.map_map]
  have : ∀ c ∈ d.abs, (Cell.val ∘ Cell.idOr0) c = c := by
    intro c hc
    obtain ⟨id, rfl⟩ := hg.allVal c hc
    rfl
  rw [List.map_congr_left this]; simp

/-! non-vacuity: a concrete world and history -/
def sampleVec : VecSt :=
  { ty := 0, size := 8, align := 8, hasDrop := true, cloneable := true, bk := .heap, cap := 4,
    cells := [.val 10, .val 11, .val 12], len := 3, gen := 0, live := true }
def sampleWorld : World := { vecs := [sampleVec], created := 13 }
def sampleOps : List VOp := [.push, .insert 1, .remove 0, .swapRemove 0, .pop, .tpush, .remove 9]

example : (runOps { size := 8, align := 8, hasDrop := true } 0 0 sampleWorld sampleOps).vis 0 =
    [.val 13, .val 11, .val 15] := by decide

end Refine
end AnyVec
