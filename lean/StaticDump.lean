import AnyVecModel.Static.SendSync
open AnyVec.Static

def b2s (b : Bool) : String := if b then "1" else "0"
def bools : List Bool := [false, true]

def envs : List Env :=
  bools.flatMap fun a => bools.flatMap fun b => bools.flatMap fun c => bools.flatMap fun d =>
  bools.flatMap fun e => bools.flatMap fun f => bools.map fun g => ⟨a, b, c, d, e, f, g⟩
def tenvs : List TEnv :=
  bools.flatMap fun a => bools.flatMap fun b => bools.flatMap fun c => bools.flatMap fun d =>
  bools.flatMap fun e => bools.map fun f => ⟨a, b, c, d, e, f⟩

def lines : List String :=
  (envs.flatMap fun env =>
    let key := String.join [b2s env.setSend, b2s env.setSync, b2s env.setClone, b2s env.bSend, b2s env.bSync, b2s env.mSend, b2s env.mSync]
    s!"V {key} {b2s (vecSend env)} {b2s (vecSync env)}" ::
      H.all.map fun h => s!"E {key} {h.name} {b2s (hSend h env)} {b2s (hSync h env)}") ++
  (tenvs.flatMap fun t =>
    let key := String.join [b2s t.tSend, b2s t.tSync, b2s t.bSend, b2s t.bSync, b2s t.mSend, b2s t.mSync]
    TH.all.map fun h => s!"T {key} {h.name} {b2s (thSend h t)} {b2s (thSync h t)}") ++
  (bools.flatMap fun s => bools.flatMap fun y => bools.flatMap fun c =>
   bools.flatMap fun ts => bools.flatMap fun ty => bools.map fun tc =>
    s!"C {b2s s}{b2s y}{b2s c} {b2s ts}{b2s ty}{b2s tc} {b2s (ctorOk s y c ⟨ts, ty, tc⟩)}") ++
  (bools.map fun c => s!"K {b2s c} {b2s (cloneAvailable c)}") ++
  [s!"R heap {b2s (capacityApi .heap)}", s!"R stack {b2s (capacityApi .stack)}",
   s!"R stackn {b2s (capacityApi .stackN)}", s!"R empty {b2s (capacityApi .empty)}"]

def main : IO Unit := do
  for l in lines do IO.println l
