import AnyVecModel.Model.Basic
import AnyVecModel.Model.Vec
import AnyVecModel.Model.World
import AnyVecModel.Model.Ops
import AnyVecModel.Model.Driver
