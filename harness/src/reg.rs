//! Registry: identities, fault injection, the event log and the instrumented global allocator.
//! Everything here is allocation-free on the hot path (the allocator itself logs into it).

use std::alloc::{GlobalAlloc, Layout, System};
use std::cell::UnsafeCell;
use std::sync::atomic::{AtomicBool, AtomicI64, AtomicU64, AtomicUsize, Ordering::Relaxed};

pub const EV_DROP: u64 = 1;
pub const EV_CLONE: u64 = 2;
pub const EV_ALLOC: u64 = 3;
pub const EV_REALLOC: u64 = 4;
pub const EV_DEALLOC: u64 = 5;
pub const EV_MB: u64 = 6;
pub const EV_ME: u64 = 7;
pub const EV_MR: u64 = 8;
pub const EV_MD: u64 = 9;
pub const EV_BAD: u64 = 10;

const EVCAP: usize = 1 << 16;

pub struct Shared {
    ev: UnsafeCell<[[u64; 4]; EVCAP]>,
    live: UnsafeCell<[(usize, usize, usize); LIVECAP]>,
}
unsafe impl Sync for Shared {}
const LIVECAP: usize = 4096;

static SH: Shared = Shared {
    ev: UnsafeCell::new([[0; 4]; EVCAP]),
    live: UnsafeCell::new([(0, 0, 0); LIVECAP]),
};
static EVLEN: AtomicUsize = AtomicUsize::new(0);
static EVLOST: AtomicUsize = AtomicUsize::new(0);
static NEXT_ID: AtomicU64 = AtomicU64::new(0);
static FAULT: AtomicI64 = AtomicI64::new(-1);
static SCOPE: AtomicBool = AtomicBool::new(false);
static DROPS: AtomicU64 = AtomicU64::new(0);
static LIVE_N: AtomicUsize = AtomicUsize::new(0);

pub fn log(kind: u64, a: u64, b: u64, c: u64) {
    let i = EVLEN.load(Relaxed);
    if i < EVCAP {
        unsafe { (*SH.ev.get())[i] = [kind, a, b, c] };
        EVLEN.store(i + 1, Relaxed);
    } else {
        EVLOST.fetch_add(1, Relaxed);
    }
}
pub fn take_events() -> Vec<[u64; 4]> {
    let n = EVLEN.load(Relaxed);
    let v = unsafe { let a: &[[u64; 4]; EVCAP] = &*SH.ev.get(); a[..n].to_vec() };
    EVLEN.store(0, Relaxed);
    v
}
pub fn events_lost() -> usize { EVLOST.swap(0, Relaxed) }

pub fn reset_case() {
    NEXT_ID.store(0, Relaxed);
    FAULT.store(-1, Relaxed);
    DROPS.store(0, Relaxed);
    EVLEN.store(0, Relaxed);
}
pub fn fresh() -> u64 { NEXT_ID.fetch_add(1, Relaxed) }
pub fn created() -> u64 { NEXT_ID.load(Relaxed) }
pub fn drops() -> u64 { DROPS.load(Relaxed) }
pub fn set_fault(k: i64) { FAULT.store(k, Relaxed) }
pub fn fault_left() -> i64 { FAULT.load(Relaxed) }

thread_local! {
    static PAYLOAD: std::cell::RefCell<Option<Box<dyn std::any::Any + Send>>> = std::cell::RefCell::new(None);
}
pub struct Injected;
pub fn arm_payload() {
    PAYLOAD.with(|p| { *p.borrow_mut() = Some(Box::new(Injected)); });
}

/// one call into user code: panics if the injected fault is due
pub fn tick() {
    if std::thread::panicking() {
        FAULT.store(-1, Relaxed);
        return;
    }
    let f = FAULT.load(Relaxed);
    if f < 0 { return; }
    if f <= 1 {
        FAULT.store(-1, Relaxed);
        if f == 1 {
            let p = PAYLOAD.with(|p| p.borrow_mut().take());
            match p {
                Some(p) => std::panic::resume_unwind(p),
                None => panic!("injected (no payload armed)"),
            }
        }
    } else {
        FAULT.store(f - 1, Relaxed);
    }
}
pub fn on_drop(id: u64) {
    DROPS.fetch_add(1, Relaxed);
    log(EV_DROP, id, 0, 0);
    tick();
}
pub fn on_clone(src: u64) -> u64 {
    tick();
    let n = fresh();
    log(EV_CLONE, src, n, 0);
    n
}

/// allocations made while the scope is on are attributed to the library
pub fn scope_on() -> bool { SCOPE.swap(true, Relaxed) }
pub fn scope_set(v: bool) { SCOPE.store(v, Relaxed) }
pub struct NoScope(bool);
impl NoScope { pub fn new() -> Self { NoScope(SCOPE.swap(false, Relaxed)) } }
impl Drop for NoScope { fn drop(&mut self) { SCOPE.store(self.0, Relaxed) } }
pub fn noscope<R>(f: impl FnOnce() -> R) -> R { let _g = NoScope::new(); f() }

pub fn live_blocks() -> usize { LIVE_N.load(Relaxed) }

fn live_find(p: usize) -> Option<usize> {
    let t = unsafe { &*SH.live.get() };
    (0..LIVECAP).find(|&i| t[i].0 == p)
}
fn live_add(p: usize, size: usize, align: usize) {
    let t = unsafe { &mut *SH.live.get() };
    if let Some(i) = (0..LIVECAP).find(|&i| t[i].0 == 0) {
        t[i] = (p, size, align);
        LIVE_N.fetch_add(1, Relaxed);
    } else {
        log(EV_BAD, 9, 0, 0);
    }
}
fn live_del(i: usize) {
    let t = unsafe { &mut *SH.live.get() };
    t[i] = (0, 0, 0);
    LIVE_N.fetch_sub(1, Relaxed);
}

pub struct Tracking;
unsafe impl GlobalAlloc for Tracking {
    unsafe fn alloc(&self, l: Layout) -> *mut u8 {
        if SCOPE.load(Relaxed) {
            // library allocation (vector storage): tail guard zone behind the block
            let p = match Layout::from_size_align(l.size().wrapping_add(TAIL_GUARD), l.align()) {
                Ok(pl) if l.size() <= isize::MAX as usize - TAIL_GUARD => System.alloc(pl),
                _ => std::ptr::null_mut(),
            };
            if !p.is_null() {
                std::ptr::write_bytes(p, 0xCD, l.size());
                std::ptr::write_bytes(p.add(l.size()), GUARD_BYTE, TAIL_GUARD);
                live_add(p as usize, l.size(), l.align());
                log(EV_ALLOC, l.size() as u64, l.align() as u64, 0);
                if l.size() == 0 || l.size() > isize::MAX as usize { log(EV_BAD, 3, l.size() as u64, 0); }
            }
            return p;
        }
        System.alloc(l)
    }
    unsafe fn dealloc(&self, p: *mut u8, l: Layout) {
        if let Some(i) = live_find(p as usize) {
            let (_, size, align) = (*SH.live.get())[i];
            if size != l.size() || align != l.align() {
                log(EV_BAD, 1, l.size() as u64, size as u64);
            }
            if SCOPE.load(Relaxed) {
                log(EV_DEALLOC, l.size() as u64, l.align() as u64, 0);
            }
            check_tail(p, size);
            std::ptr::write_bytes(p, 0xDD, size);
            live_del(i);
            // the block was allocated with its recorded size plus the tail guard
            System.dealloc(p, Layout::from_size_align_unchecked(size + TAIL_GUARD, align));
            return;
        }
        System.dealloc(p, l)
    }
    unsafe fn realloc(&self, p: *mut u8, l: Layout, new_size: usize) -> *mut u8 {
        if let Some(i) = live_find(p as usize) {
            let (_, size, align) = (*SH.live.get())[i];
            if size != l.size() || align != l.align() {
                log(EV_BAD, 2, l.size() as u64, size as u64);
            }
            if new_size == 0 || new_size > isize::MAX as usize { log(EV_BAD, 4, new_size as u64, 0); }
            // always move
            let np = match Layout::from_size_align(new_size.wrapping_add(TAIL_GUARD), align) {
                Ok(pl) if new_size <= isize::MAX as usize - TAIL_GUARD => System.alloc(pl),
                _ => std::ptr::null_mut(),
            };
            if np.is_null() { return np; }
            std::ptr::write_bytes(np, 0xCD, new_size);
            std::ptr::write_bytes(np.add(new_size), GUARD_BYTE, TAIL_GUARD);
            std::ptr::copy_nonoverlapping(p, np, size.min(new_size).min(l.size()));
            check_tail(p, size);
            std::ptr::write_bytes(p, 0xDD, size);
            live_del(i);
            System.dealloc(p, Layout::from_size_align_unchecked(size + TAIL_GUARD, align));
            live_add(np as usize, new_size, align);
            if SCOPE.load(Relaxed) {
                log(EV_REALLOC, l.size() as u64, new_size as u64, l.align() as u64);
            }
            np
        } else {
            System.realloc(p, l, new_size)
        }
    }
}

const TAIL_GUARD: usize = 256;
const GUARD_BYTE: u8 = 0xA5;
unsafe fn check_tail(p: *mut u8, size: usize) {
    for k in 0..TAIL_GUARD {
        if *p.add(size + k) != GUARD_BYTE { log(EV_BAD, 24, k as u64, 0); return; }
    }
}
/// after every step: the tail guards of the live library blocks are intact (no write past the
/// capacity) and no element-sized slot of a *vector's storage block* (`storage`: the storage pointers of the live
/// vectors) consists of guard bytes or of released-memory poison (an over-read past the capacity, or a read through a
/// stale pointer, copied into the block). Other blocks allocated inside a library call - the payload of a panic - hold
/// arbitrary bytes (addresses) and are only checked for writes past their end.
pub fn scan_heap(elem: usize, storage: &[usize]) {
    let t = unsafe { &*SH.live.get() };
    for i in 0..LIVECAP {
        let (p, size, _) = t[i];
        if p == 0 { continue; }
        let b = p as *mut u8;
        unsafe {
            check_tail(b, size);
            if elem < 2 || !storage.contains(&p) { continue; }
            let mut k = 0;
            let lim = size.min(1 << 16);
            while k + elem <= lim {
                let first = *b.add(k);
                if first == GUARD_BYTE || first == 0xDD {
                    let mut all = true;
                    for j in 1..elem { if *b.add(k + j) != first { all = false; break; } }
                    if all { log(EV_BAD, if first == GUARD_BYTE { 25 } else { 26 }, (k / elem) as u64, 0); return; }
                }
                k += elem;
            }
        }
    }
}
