//! The real `AnyVec` behind an object-safe interface, one implementation per (constraint set,
//! backend) kind, generic over the element family of the case.

use std::any::{Any, TypeId};
use std::cell::RefCell;
use std::mem::ManuallyDrop;
use std::ops::Bound;
use std::ptr::NonNull;

use any_vec::any_value::{
    AnyValue, AnyValueCloneable, AnyValueMut, AnyValueRaw, AnyValueSizeless, AnyValueSizelessRaw, AnyValueTypeless, AnyValueTypelessMut,
    AnyValueTypelessRaw,
    AnyValueWrapper, Unknown,
};
use any_vec::mem::{Empty, Stack, StackN};
#[cfg(feature = "alloc")]
use any_vec::mem::Heap;
use any_vec::traits::{Cloneable, None as TNone, Trait};
use any_vec::AnyVec;

use crate::elem::{show_id, Elem, Family};
use crate::reg;
use crate::reloc::Reloc;

#[derive(Clone, Debug)]
pub enum Src { W(u8), R(u8), S(u8), Y(u8), L { v: usize, i: usize, d: u8 } }
#[derive(Clone, Debug)]
pub enum Sink { Drop, Dc(u8), Forget, Push(usize), Ins(usize, usize), Lazy(usize, usize), Swap(u8), SwapRaw(u8), Info }
#[derive(Clone, Copy, Debug)]
pub enum HK { Pop, Remove, SwapRemove }
#[derive(Clone, Copy, Debug, PartialEq, Eq)]
pub enum EndTok { F, B }
#[derive(Clone, Copy, Debug)]
pub enum FinTok { Drop, Forget }
pub type Rng = (Bound<usize>, Bound<usize>);

thread_local! {
    pub static OUT: RefCell<Vec<String>> = RefCell::new(Vec::new());
    /// in this case a run of `k` plain drops from one end of an erased drain followed by one more item from the same end
    /// is taken with `nth(k)` / `nth_back(k)` - what `skip`, `step_by` and `nth` do. By the iterator contract that is
    /// k + 1 `next` calls whose first k results are dropped, so the script, the model and the oracles are unchanged.
    pub static NTH_MODE: std::cell::Cell<bool> = std::cell::Cell::new(false);
}
pub fn out_string(s: String) {
    OUT.with(|o| o.borrow_mut().push(s));
}
/// record an output token; formatting happens off the allocator's books
#[macro_export]
macro_rules! out {
    ($($arg:tt)*) => {{
        let _g = $crate::reg::NoScope::new();
        $crate::dynvec::out_string(format!($($arg)*));
    }};
}

pub struct Env<F: Family> {
    pub vecs: Vec<RefCell<Option<Box<dyn DynVec<F>>>>>,
    pub held: RefCell<Vec<(String, Box<dyn Any>)>>,
}
impl<F: Family> Env<F> {
    pub fn with_vec<R>(&self, w: usize, f: impl FnOnce(&mut dyn DynVec<F>) -> R) -> R {
        let mut b = self.vecs[w].borrow_mut();
        f(b.as_mut().expect("harness: vector is gone").as_mut())
    }
    pub fn hold<T: Elem>(&self, x: T) {
        let _g = reg::NoScope::new();
        let s = x.id_str();
        self.held.borrow_mut().push((s, Box::new(x)));
    }
}

/// object-safe view of any `AnyValue`, so that a value can cross the `dyn DynVec` boundary
pub trait ErasedVal {
    fn ptr(&self) -> *const u8;
    fn size(&self) -> usize;
    fn typeid(&self) -> TypeId;
    unsafe fn move_into(&mut self, out: *mut u8, size: usize);
    fn drop_now(&mut self);
}
impl<V: AnyValue> ErasedVal for Option<V> {
    fn ptr(&self) -> *const u8 { self.as_ref().unwrap().as_bytes_ptr() }
    fn size(&self) -> usize { self.as_ref().unwrap().size() }
    fn typeid(&self) -> TypeId { self.as_ref().unwrap().value_typeid() }
    unsafe fn move_into(&mut self, out: *mut u8, size: usize) {
        self.take().unwrap().move_into::<V::Type>(out, size)
    }
    fn drop_now(&mut self) { drop(self.take()) }
}
/// forwards every `AnyValue` call to the wrapped value (type `Unknown`: the erased path)
pub struct Forward<'a>(&'a mut dyn ErasedVal);
impl<'a> Forward<'a> {
    pub fn new(v: &'a mut dyn ErasedVal) -> Self { Forward(v) }
}
impl<'a> AnyValueSizeless for Forward<'a> {
    type Type = Unknown;
    fn as_bytes_ptr(&self) -> *const u8 { self.0.ptr() }
    unsafe fn move_into<K: 'static>(self, out: *mut u8, size: usize) {
        let mut this = ManuallyDrop::new(self);
        this.0.move_into(out, size)
    }
}
impl<'a> AnyValueTypeless for Forward<'a> { fn size(&self) -> usize { self.0.size() } }
impl<'a> AnyValue for Forward<'a> { fn value_typeid(&self) -> TypeId { self.0.typeid() } }
impl<'a> Drop for Forward<'a> { fn drop(&mut self) { self.0.drop_now() } }

/// an owning erased value (item of a heterogeneous replacement iterator)
pub struct BoxedVal<'a>(Box<dyn ErasedVal + 'a>);
impl<'a> BoxedVal<'a> {
    pub fn new<V: AnyValue + 'a>(v: V) -> Self {
        let _g = reg::NoScope::new();
        BoxedVal(Box::new(Some(v)))
    }
}
impl<'a> AnyValueSizeless for BoxedVal<'a> {
    type Type = Unknown;
    fn as_bytes_ptr(&self) -> *const u8 { self.0.ptr() }
    unsafe fn move_into<K: 'static>(mut self, out: *mut u8, size: usize) {
        self.0.move_into(out, size)
    }
}
impl<'a> AnyValueTypeless for BoxedVal<'a> { fn size(&self) -> usize { self.0.size() } }
impl<'a> AnyValue for BoxedVal<'a> { fn value_typeid(&self) -> TypeId { self.0.typeid() } }
impl<'a> Drop for BoxedVal<'a> {
    fn drop(&mut self) {
        self.0.drop_now();
        // the box itself is harness memory
        let _g = reg::NoScope::new();
        let empty: Box<dyn ErasedVal> = Box::new(None::<AnyValueRaw>);
        drop(std::mem::replace(&mut self.0, empty));
    }
}

/// a fresh element handed to the library through a non-owning raw pointer; the caller destroys
/// it unless the library took it
pub struct RawSlot<T: Elem> { val: ManuallyDrop<T>, pub taken: bool }
impl<T: Elem> RawSlot<T> {
    pub fn new() -> Self { RawSlot { val: ManuallyDrop::new(T::make(reg::fresh())), taken: false } }
    pub fn raw(&mut self) -> AnyValueRaw {
        unsafe {
            AnyValueRaw::new(
                NonNull::new_unchecked(&mut *self.val as *mut T as *mut u8),
                std::mem::size_of::<T>(),
                TypeId::of::<T>(),
            )
        }
    }
}
impl<T: Elem> Drop for RawSlot<T> {
    fn drop(&mut self) { if !self.taken { unsafe { ManuallyDrop::drop(&mut self.val) } } }
}
pub trait RawSlotDyn { fn set_taken(&mut self); }
impl<T: Elem> RawSlotDyn for RawSlot<T> { fn set_taken(&mut self) { self.taken = true } }

/// replacement iterator: every `next` is a user-code call; `len()` may lie
pub struct Repl<V> {
    pub items: std::vec::IntoIter<V>,
    pub claimed: usize,
    pub yielded: std::rc::Rc<std::cell::Cell<usize>>,
}
impl<V> Iterator for Repl<V> {
    type Item = V;
    fn next(&mut self) -> Option<V> {
        reg::tick();
        let r = self.items.next();
        if r.is_some() { self.yielded.set(self.yielded.get() + 1); }
        r
    }
    fn size_hint(&self) -> (usize, Option<usize>) { (self.claimed, Some(self.claimed)) }
}
impl<V> ExactSizeIterator for Repl<V> { fn len(&self) -> usize { self.claimed } }
impl<V> Drop for Repl<V> {
    fn drop(&mut self) {
        // drop what was not taken (element destructors run), then free the buffer off the books
        for x in self.items.by_ref() { drop(x); }
        let _g = reg::NoScope::new();
        drop(std::mem::replace(&mut self.items, Vec::new().into_iter()));
    }
}

pub trait DynVec<F: Family> {
    fn ty(&self) -> u8;
    fn len(&self) -> usize;
    fn cap(&self) -> usize;
    fn body(&self) -> String;
    fn push_src(&mut self, src: &Src);
    fn insert_src(&mut self, i: usize, src: &Src);
    fn push_fwd(&mut self, v: Forward);
    fn insert_fwd(&mut self, i: usize, v: Forward);
    fn tpush(&mut self);
    fn tinsert(&mut self, i: usize);
    fn tremove_op(&mut self, hk: HK, i: usize, env: &Env<F>);
    fn handle_op(&mut self, hk: HK, i: usize, sink: &Sink, env: &Env<F>);
    fn clear(&mut self);
    fn get(&self, i: usize, at: bool);
    fn iter(&self, cs: &[EndTok]);
    fn iter_clone(&self, pre: &[EndTok], post: &[EndTok]);
    fn drain(&mut self, r: Rng, typed: bool, eats: &[(EndTok, Sink)], fin: FinTok, env: &Env<F>);
    fn splice(&mut self, r: Rng, typed: bool, repl: &[Src], claim: i64,
              eats: &[(EndTok, Sink)], fin: FinTok, env: &Env<F>);
    fn lazy_ref_to(&self, i: usize, depth: u8, dst: &mut dyn DynVec<F>, at: Option<usize>);
    fn lazy_item<'a>(&'a self, i: usize, depth: u8) -> BoxedVal<'a>;
    fn lazy_dc(&self, i: usize, depth: u8, ty: u8, env: &Env<F>);
    fn clone_vec(&self) -> Box<dyn DynVec<F>>;
    fn clone_empty_in(&self, bk: Option<&str>) -> Box<dyn DynVec<F>>;
    fn capacity_op(&mut self, op: &str, n: usize);
    fn info(&self);
    fn dcvec(&mut self, ty: u8);
    fn wswap(&mut self, i: usize, ty: u8);
    fn tassign(&mut self, i: usize);
    fn swapb(&mut self, i: usize, j: usize);
    fn tswap(&mut self, i: usize, j: usize);
    fn eswap_with(&mut self, i: usize, other: &mut dyn DynVec<F>, j: usize);
    fn with_elem_mut(&mut self, j: usize, f: &mut dyn FnMut(&mut dyn ErasedMut));
    fn probe(&self);
    /// address of the storage block (whatever the length currently is)
    fn storage_ptr(&self) -> usize;
    fn views(&mut self);
    fn setlen(&mut self, k: usize, typed: bool);
    fn rawrt(&mut self);
    fn rawparts(&mut self);
}

pub struct DV<Tr: ?Sized + Trait, M: any_vec::mem::MemBuilder> {
    pub v: AnyVec<Tr, M>,
    pub ty: u8,
}

/// `pre::<gens.., F::T<tag>>(args)` for the run-time type tag
macro_rules! dispatch_tag {
    ($F:ty, $t:expr, [$($pre:tt)*], {$($gen:tt)*}, ($($args:tt)*)) => {
        match $t {
            0 => $($pre)*::<$($gen)* <$F as Family>::T0>($($args)*),
            1 => $($pre)*::<$($gen)* <$F as Family>::T1>($($args)*),
            2 => $($pre)*::<$($gen)* <$F as Family>::T2>($($args)*),
            3 => $($pre)*::<$($gen)* <$F as Family>::T3>($($args)*),
            _ => panic!("harness: no such type tag"),
        }
    };
}

pub enum Tok { None, N, Id(String), Extra(Vec<String>) }

fn sink_dc<F: Family, H: AnyValue, T: Elem>(h: H, env: &Env<F>) -> Tok {
    match h.downcast::<T>() {
        Some(x) => { let s = reg::noscope(|| x.id_str()); env.hold(x); Tok::Id(s) }
        None => Tok::N,
    }
}
/// tag 9: downcast to `any_vec::any_value::Unknown`, the marker type every type-erased value carries as its
/// compile-time type; no element is of that type, so every checked downcast to it has to refuse
fn sink_dc_unknown<H: AnyValue>(h: H) -> Tok {
    use any_vec::any_value::Unknown;
    let by_ref = h.downcast_ref::<Unknown>().is_some();
    match h.downcast::<Unknown>() {
        Some(x) => { std::mem::forget(x); Tok::Id("U".to_string()) }
        None => if by_ref { Tok::Id("Uref".to_string()) } else { Tok::N },
    }
}
fn sink_swap<F: Family, H: AnyValueMut, T: Elem>(h: H) -> Tok {
    let mut h = h;
    let mut w = AnyValueWrapper::new(T::make(reg::fresh()));
    h.swap(&mut w);
    let s = reg::noscope(|| show_id(F::SIZE, AnyValueTypeless::as_bytes(&w)));
    drop(w);
    drop(h);
    Tok::Id(s)
}
/// the same exchange with a *type-erased* right operand (`AnyValueRaw` over a fresh value): both sides untyped, so the
/// library swaps `size()` bytes of the handle
fn sink_swap_raw<F: Family, H: AnyValueMut, T: Elem>(h: H) -> Tok {
    let mut h = h;
    let mut slot = RawSlot::<T>::new();
    {
        let mut raw = slot.raw();
        h.swap(&mut raw);
    }
    let s = reg::noscope(|| slot.val.id_str());
    drop(slot);
    drop(h);
    Tok::Id(s)
}
/// what a value says about itself before it is offered to the library: `size()`, `value_typeid()`, the extent and the
/// address of its byte view must be those of the `T` it was made from (`BAD48`); runs no user code
fn check_self_report<T: Elem, V: AnyValue>(v: &V, at: *const u8) {
    let sz = std::mem::size_of::<T>();
    let b = AnyValueTypeless::as_bytes(v);
    if v.size() != sz || b.len() != sz || v.value_typeid() != TypeId::of::<T>() || (sz != 0 && b.as_ptr() != at) {
        reg::log(reg::EV_BAD, 48, v.size() as u64, b.len() as u64);
    }
}
fn wrapper_checked<T: Elem>() -> AnyValueWrapper<T> {
    let w = AnyValueWrapper::new(T::make(reg::fresh()));
    let at = AnyValueTypeless::as_bytes(&w).as_ptr();
    // the wrapper owns its value inline: the byte view must lie inside the wrapper itself
    let lo = &w as *const AnyValueWrapper<T> as usize;
    if std::mem::size_of::<T>() != 0 && !((at as usize) >= lo && (at as usize) + std::mem::size_of::<T>() <= lo + std::mem::size_of::<AnyValueWrapper<T>>()) {
        reg::log(reg::EV_BAD, 48, 1, 1);
    }
    check_self_report::<T, _>(&w, at);
    w
}
fn boxed_w<T: Elem>() -> BoxedVal<'static> { BoxedVal::new(wrapper_checked::<T>()) }
fn boxed_r<T: Elem>() -> (BoxedVal<'static>, Box<dyn RawSlotDyn>) {
    let mut slot = Box::new(RawSlot::<T>::new());
    let raw = slot.raw();
    (BoxedVal::new(raw), slot)
}
fn typed_sink<F: Family, T: Elem>(x: T, sink: &Sink, env: &Env<F>) {
    match sink {
        Sink::Drop => drop(x),
        Sink::Forget => std::mem::forget(x),
        Sink::Dc(_) => env.hold(x),
        _ => panic!("harness: bad-op sink for a typed item"),
    }
}

fn fwd_to<F: Family, V: AnyValue>(val: V, dst: &mut dyn DynVec<F>, at: Option<usize>) {
    let mut o = Some(val);
    match at {
        None => dst.push_fwd(Forward::new(&mut o)),
        Some(j) => dst.insert_fwd(j, Forward::new(&mut o)),
    }
}

fn body_of<F: Family>(bytes: &[u8], len: usize) -> String {
    let _g = reg::NoScope::new();
    if F::SIZE == 0 { return "z".to_string(); }
    if len > 300 {
        let mut h: u128 = 7;
        let mut torn = false;
        for c in bytes.chunks(F::SIZE) {
            let (id, ok) = crate::elem::decode(c);
            if !ok { torn = true; }
            h = (h * 1000003 + id as u128 + 1) % 2305843009213693951u128;
        }
        return format!("#{}{}", h, if torn { "!" } else { "" });
    }
    if len == 0 { return "-".to_string(); }
    bytes.chunks(F::SIZE).map(|c| show_id(F::SIZE, c)).collect::<Vec<_>>().join(",")
}

macro_rules! sink_value {
    // $h: the value (handle or drained element), by value
    ($F:ty, $h:expr, $sink:expr, $env:expr, $lazy:tt) => {{
        let h = $h;
        match $sink {
            Sink::Drop => { drop(h); Tok::None }
            Sink::Forget => { std::mem::forget(h); Tok::None }
            Sink::Dc(t) => if *t == 9 { sink_dc_unknown(h) } else { dispatch_tag!($F, *t, [sink_dc], {$F, _,}, (h, $env)) },
            Sink::Push(w) => {
                let mut o = Some(h);
                $env.with_vec(*w, |d| d.push_fwd(Forward::new(&mut o)));
                Tok::None
            }
            Sink::Ins(w, j) => {
                let mut o = Some(h);
                $env.with_vec(*w, |d| d.insert_fwd(*j, Forward::new(&mut o)));
                Tok::None
            }
            Sink::Lazy(w, k) => { sink_value!(@lazy $lazy, h, *w, *k, $env); Tok::None }
            Sink::Swap(t) => dispatch_tag!($F, *t, [sink_swap], {$F, _,}, (h)),
            Sink::SwapRaw(t) => dispatch_tag!($F, *t, [sink_swap_raw], {$F, _,}, (h)),
            Sink::Info => {
                let toks = reg::noscope(|| {
                    // what the value reports about itself has to agree with the bytes it exposes
                    if AnyValueTypeless::as_bytes(&h).len() != h.size() || h.size() != <$F as Family>::SIZE { reg::log(reg::EV_BAD, 46, h.size() as u64, 0); }
                    vec![format!("t{}", tag_of::<$F>(h.value_typeid())), format!("s{}", h.size())] });
                drop(h);
                Tok::Extra(toks)
            }
        }
    }};
    (@lazy yes, $h:ident, $w:expr, $k:expr, $env:expr) => {{
        for _ in 0..$k {
            let mut o = Some($h.lazy_clone());
            $env.with_vec($w, |d| d.push_fwd(Forward::new(&mut o)));
        }
        drop($h);
    }};
    (@lazy no, $h:ident, $w:expr, $k:expr, $env:expr) => {{
        let _ = ($w, $k);
        drop($h);
        panic!("harness: bad-op lazy clone on a non-Cloneable vector");
    }};
}

macro_rules! finish_handle {
    ($tok:expr) => {
        match $tok { Tok::None => {}, Tok::N => out!("N"), Tok::Id(s) => out!("{}", s),
                     Tok::Extra(v) => { for s in v { out!("{}", s) } } }
    };
}
/// token(s) for one consumed item of a range iterator
macro_rules! finish_item {
    ($tok:expr, $id:expr, $rem:expr) => {
        match $tok {
            Tok::N => out!("N:{}", $rem),
            Tok::Extra(v) => out!("{}/{}:{}", $id, v.join("/"), $rem),
            _ => out!("{}:{}", $id, $rem),
        }
    };
}
pub fn tag_of<F: Family>(t: TypeId) -> String {
    if t == TypeId::of::<F::T0>() { "0".into() }
    else if t == TypeId::of::<F::T1>() { "1".into() }
    else if t == TypeId::of::<F::T2>() { "2".into() }
    else if t == TypeId::of::<F::T3>() { "3".into() }
    else { "?".into() }
}
/// object-safe view of a mutable value handle (for swaps across the `dyn DynVec` boundary)
pub trait ErasedMut {
    fn em_ptr(&mut self) -> *mut u8;
    fn em_cptr(&self) -> *const u8;
    fn em_size(&self) -> usize;
    fn em_typeid(&self) -> TypeId;
}
impl<V: AnyValueMut> ErasedMut for V {
    fn em_ptr(&mut self) -> *mut u8 { self.as_bytes_mut_ptr() }
    fn em_cptr(&self) -> *const u8 { self.as_bytes_ptr() }
    fn em_size(&self) -> usize { AnyValueTypeless::size(self) }
    fn em_typeid(&self) -> TypeId { self.value_typeid() }
}
pub struct FwdMut<'a>(pub &'a mut dyn ErasedMut);
impl<'a> AnyValueSizeless for FwdMut<'a> {
    type Type = Unknown;
    fn as_bytes_ptr(&self) -> *const u8 { self.0.em_cptr() }
}
impl<'a> any_vec::any_value::AnyValueSizelessMut for FwdMut<'a> {
    fn as_bytes_mut_ptr(&mut self) -> *mut u8 { self.0.em_ptr() }
}
impl<'a> AnyValueTypeless for FwdMut<'a> { fn size(&self) -> usize { self.0.em_size() } }
impl<'a> AnyValue for FwdMut<'a> { fn value_typeid(&self) -> TypeId { self.0.em_typeid() } }
impl<'a> any_vec::any_value::AnyValueTypelessMut for FwdMut<'a> {}
impl<'a> AnyValueMut for FwdMut<'a> {}

macro_rules! impl_kind {
    ($Tr:ty, $M:ty, $clone:tt, $resize:tt, $cei:tt, $raw:tt) => {
        impl DV<$Tr, $M> {
            fn push_w<T: Elem>(&mut self, at: Option<usize>) {
                let x = wrapper_checked::<T>();
                match at { None => self.v.push(x), Some(i) => self.v.insert(i, x) }
            }
            fn push_r<T: Elem>(&mut self, at: Option<usize>) {
                let mut slot = RawSlot::<T>::new();
                let raw = slot.raw();
                check_self_report::<T, _>(&raw, &*slot.val as *const T as *const u8);
                match at { None => self.v.push(raw), Some(i) => self.v.insert(i, raw) }
                slot.taken = true;
            }
            /// `push_unchecked` / `insert_unchecked` of a raw pointer that carries no type (and, `sizeless`, no size): the
            /// caller vouches for the type, so the script may only offer the vector's own element type
            fn push_u<T: Elem>(&mut self, at: Option<usize>, sizeless: bool) {
                if self.v.element_typeid() != TypeId::of::<T>() { panic!("harness: bad-op unchecked push of another type"); }
                let mut slot = RawSlot::<T>::new();
                let p = unsafe { NonNull::new_unchecked(&mut *slot.val as *mut T as *mut u8) };
                unsafe {
                    if sizeless {
                        let raw = AnyValueSizelessRaw::new(p);
                        match at { None => self.v.push_unchecked(raw), Some(i) => self.v.insert_unchecked(i, raw) }
                    } else {
                        let raw = AnyValueTypelessRaw::new(p, std::mem::size_of::<T>());
                        match at { None => self.v.push_unchecked(raw), Some(i) => self.v.insert_unchecked(i, raw) }
                    }
                }
                slot.taken = true;
            }
            fn tpush_t<T: Elem>(&mut self, at: Option<usize>) {
                let x = T::make(reg::fresh());
                let mut tv = self.v.downcast_mut::<T>().expect("harness: own type");
                match at { None => tv.push(x), Some(i) => tv.insert(i, x) }
            }
            fn tremove_t<F: Family, T: Elem>(&mut self, hk: HK, i: usize, env: &Env<F>) {
                let mut tv = self.v.downcast_mut::<T>().expect("harness: own type");
                let r: Option<T> = match hk {
                    HK::Pop => tv.pop(),
                    HK::Remove => Some(tv.remove(i)),
                    HK::SwapRemove => Some(tv.swap_remove(i)),
                };
                match r {
                    Some(x) => { out!("{}", x.id_str()); env.hold(x) }
                    None => out!("N"),
                }
            }
            fn tdrain_t<F: Family, T: Elem>(&mut self, r: Rng, eats: &[(EndTok, Sink)], fin: FinTok, env: &Env<F>) {
                let mut tv = self.v.downcast_mut::<T>().expect("harness: own type");
                let mut it = tv.drain(r);
                out!("{}", it.len());
                for (end, sink) in eats {
                    let e: Option<T> = match end { EndTok::F => it.next(), EndTok::B => it.next_back() };
                    match e {
                        None => out!("N:{}", it.len()),
                        Some(x) => {
                            let id = reg::noscope(|| x.id_str());
                            typed_sink(x, sink, env);
                            out!("{}:{}", id, it.len());
                        }
                    }
                }
                match fin { FinTok::Drop => drop(it), FinTok::Forget => std::mem::forget(it) }
            }
            #[allow(clippy::too_many_arguments)]
            fn tsplice_t<F: Family, T: Elem>(&mut self, r: Rng, n: usize, claimed: usize,
                yielded: std::rc::Rc<std::cell::Cell<usize>>, eats: &[(EndTok, Sink)], fin: FinTok, env: &Env<F>) {
                let items: Vec<T> = reg::noscope(|| (0..n).map(|_| T::make(reg::fresh())).collect());
                let rp = Repl { items: items.into_iter(), claimed, yielded };
                let mut tv = self.v.downcast_mut::<T>().expect("harness: own type");
                let mut it = tv.splice(r, rp);
                out!("{}", it.len());
                for (end, sink) in eats {
                    let e: Option<T> = match end { EndTok::F => it.next(), EndTok::B => it.next_back() };
                    match e {
                        None => out!("N:{}", it.len()),
                        Some(x) => {
                            let id = reg::noscope(|| x.id_str());
                            typed_sink(x, sink, env);
                            out!("{}:{}", id, it.len());
                        }
                    }
                }
                match fin { FinTok::Drop => drop(it), FinTok::Forget => std::mem::forget(it) }
            }
            #[allow(clippy::too_many_arguments)]
            fn splice_w<F: Family, T: Elem>(&mut self, r: Rng, n: usize, claimed: usize,
                yielded: std::rc::Rc<std::cell::Cell<usize>>, eats: &[(EndTok, Sink)], fin: FinTok, env: &Env<F>) {
                let items: Vec<AnyValueWrapper<T>> = reg::noscope(|| (0..n)
                    .map(|_| AnyValueWrapper::new(T::make(reg::fresh()))).collect());
                self.run_erased::<F, _>(r, items, claimed, yielded, eats, fin, env)
            }
            fn dcvec_t<T: Elem>(&mut self) {
                let r = self.v.downcast_ref::<T>().is_some();
                let m = self.v.downcast_mut::<T>().is_some();
                out!("r{}", if r { "S" } else { "N" });
                out!("m{}", if m { "S" } else { "N" });
            }
            fn wswap_t<F: Family, T: Elem>(&mut self, i: usize) {
                let mut e = self.v.at_mut(i);
                let mut w = AnyValueWrapper::new(T::make(reg::fresh()));
                e.swap(&mut w);
                out!("{}", show_id(F::SIZE, AnyValueTypeless::as_bytes(&w)));
                drop(w);
            }
            fn tassign_t<T: Elem>(&mut self, i: usize) {
                let x = T::make(reg::fresh());
                let mut tv = self.v.downcast_mut::<T>().expect("harness: own type");
                *tv.at_mut(i) = x;
            }
            fn tswap_t<T: Elem>(&mut self, i: usize, j: usize) {
                let mut tv = self.v.downcast_mut::<T>().expect("harness: own type");
                tv.as_mut_slice().swap(i, j);
            }
            fn probe_t<F: Family, T: Elem>(&self) {
                let a: Vec<String> = reg::noscope(|| self.v.iter().map(|e| show_id(F::SIZE, e.as_bytes())).collect());
                let tv = self.v.downcast_ref::<T>().expect("harness: own type");
                let b: Vec<String> = reg::noscope(|| tv.as_slice().iter().map(|x| x.id_str()).collect());
                let c: Vec<String> = reg::noscope(|| if F::SIZE == 0 { vec![] } else {
                    self.v.as_bytes().chunks(F::SIZE).map(|c| show_id(F::SIZE, c)).collect() });
                let n = self.v.len();
                let show = |v: &Vec<String>, cnt: usize| if F::SIZE == 0 { format!("z{}", cnt) } else if v.is_empty() { "-".to_string() } else { v.join(".") };
                out!("{}", show(&a, a.len()));
                out!("{}", show(&b, b.len()));
                out!("{}", show(&c, n));
                // every other read-only way to look at the same elements has to agree with the three above
                // (nothing here runs user code: no clone, no drop); a disagreement is logged as BAD4x
                let bad = |code: u64, i: usize| reg::log(reg::EV_BAD, code, i as u64, 0);
                reg::noscope(|| {
                    let bytes = self.v.as_bytes();
                    let sz = F::SIZE;
                    let base = bytes.as_ptr() as usize;
                    let addr_ok = |p: *const u8, i: usize| sz == 0 || p as usize == base + i * sz;
                    for i in 0..n {
                        match self.v.get(i) {
                            Some(e) => {
                                if !addr_ok(e.as_bytes().as_ptr(), i) || e.as_bytes().len() != sz { bad(40, i); }
                                if e.value_typeid() != self.v.element_typeid() || e.size() != sz { bad(46, i); }
                                if e.downcast_ref::<T>().map(|x| x as *const T as usize) != Some(e.as_bytes().as_ptr() as usize) { bad(44, i); }
                                let e2 = e.clone();
                                if e2.as_bytes().as_ptr() != e.as_bytes().as_ptr() { bad(46, i); }
                            }
                            None => bad(40, i),
                        }
                        let eu = unsafe { self.v.get_unchecked(i) };
                        if !addr_ok(eu.as_bytes().as_ptr(), i) { bad(40, i); }
                        if !addr_ok(self.v.at(i).as_bytes().as_ptr(), i) { bad(40, i); }
                        let want = &tv.as_slice()[i] as *const T;
                        if tv.get(i).map(|x| x as *const T) != Some(want) { bad(41, i); }
                        if tv.at(i) as *const T != want { bad(41, i); }
                        if unsafe { tv.get_unchecked(i) } as *const T != want { bad(41, i); }
                    }
                    if self.v.get(n).is_some() || self.v.get(n + 1).is_some() || self.v.get(usize::MAX).is_some() { bad(40, n); }
                    if tv.get(n).is_some() || tv.get(n + 1).is_some() || tv.get(usize::MAX).is_some() { bad(41, n); }
                    // borrowed iteration: `for e in &v`, exact size at every step, both ends
                    let mut it = (&self.v).into_iter();
                    let mut k = 0usize;
                    loop {
                        if it.len() != n - k || it.size_hint() != (n - k, Some(n - k)) { bad(43, k); }
                        match it.next() { Some(e) => { if !addr_ok(e.as_bytes().as_ptr(), k) { bad(43, k); } k += 1; } None => break }
                        if k > n { break; }
                    }
                    if k != n { bad(43, k); }
                    let mut k = 0usize;
                    for e in self.v.iter().rev() { if !addr_ok(e.as_bytes().as_ptr(), n - 1 - k) { bad(43, k); } k += 1; if k > n { break; } }
                    if k != n { bad(43, k); }
                    if tv.iter().count() != n || tv.iter().zip(tv.as_slice().iter()).any(|(x, y)| x as *const T != y as *const T) { bad(43, n); }
                    // the adaptors built on `nth` / `nth_back` (`skip`, `step_by`, `rev().skip`, `last`) on the borrowing iterator
                    for k in 0..=(n + 1).min(6) {
                        let want_f = if k < n { Some(k) } else { None };
                        let want_b = if k < n { Some(n - 1 - k) } else { None };
                        let got_f = self.v.iter().nth(k).map(|e| e.as_bytes().as_ptr() as usize);
                        let got_b = self.v.iter().nth_back(k).map(|e| e.as_bytes().as_ptr() as usize);
                        if sz != 0 {
                            if got_f != want_f.map(|i| base + i * sz) || got_b != want_b.map(|i| base + i * sz) { bad(43, k); }
                        } else if got_f.is_some() != want_f.is_some() || got_b.is_some() != want_b.is_some() { bad(43, k); }
                        let mut sk = self.v.iter().skip(k);
                        if sk.len() != n.saturating_sub(k) { bad(43, k); }
                        if let Some(e) = sk.next() { if !addr_ok(e.as_bytes().as_ptr(), k) { bad(43, k); } }
                        // internal iteration (`for_each` / `fold`, `rfold`) over what is left once a cursor has moved
                        let mut it = self.v.iter();
                        for _ in 0..k { it.next(); }
                        let mut j = k.min(n);
                        it.for_each(|e| { if !addr_ok(e.as_bytes().as_ptr(), j) { bad(43, j); } j += 1; });
                        if j != n { bad(43, j); }
                        let mut it = self.v.iter();
                        for _ in 0..k { it.next_back(); }
                        let mut j = n.saturating_sub(k);
                        it.rfold((), |(), e| { j = j.wrapping_sub(1); if !addr_ok(e.as_bytes().as_ptr(), j) { bad(43, j); } });
                        if j != 0 { bad(43, j); }
                    }
                    if self.v.iter().step_by(2).count() != n.div_ceil(2) { bad(43, n); }
                    let last = self.v.iter().last().map(|e| e.as_bytes().as_ptr() as usize);
                    if last.is_some() != (n > 0) || (n > 0 && sz != 0 && last != Some(base + (n - 1) * sz)) { bad(43, n); }
                    // unchecked downcasts of the whole vector land on the same storage
                    let tu = unsafe { self.v.downcast_ref_unchecked::<T>() };
                    if tu.as_ptr() != tv.as_ptr() || tu.len() != tv.len() { bad(44, 0); }
                    if sz != 0 && n > 0 && tv.as_ptr() as usize != base { bad(44, 1); }
                    // scalar reports
                    if self.v.is_empty() != (n == 0) || tv.is_empty() != (n == 0) || tv.len() != n || tv.capacity() != self.v.capacity()
                        || tv.as_slice().len() != n || (sz != 0 && bytes.len() != n * sz) { bad(45, n); }
                    if self.v.element_drop().is_some() != std::mem::needs_drop::<T>() { bad(49, 0); }
                    // Debug output exists and does not touch the elements
                    let d1 = format!("{:?}", self.v);
                    if d1.is_empty() || !d1.contains(&format!("len: {}", n)) { bad(47, 0); }
                });
            }
            fn views_t<F: Family, T: Elem>(&mut self) {
                let base = self.v.as_bytes().as_ptr() as usize;
                let blen = self.v.as_bytes().len();
                let bmlen = self.v.as_bytes_mut().len();
                let (sp, slen) = { let s = self.v.spare_bytes_mut(); (s.as_ptr() as usize, s.len()) };
                let align = self.v.element_layout().align();
                let mut tv = self.v.downcast_mut::<T>().expect("harness: own type");
                let (tp, tl) = { let s = tv.as_slice(); (s.as_ptr() as usize, s.len()) };
                let (scp, scl) = { let s = tv.spare_capacity_mut(); (s.as_ptr() as usize, s.len()) };
                out!("b{}", if blen == bmlen { blen } else { usize::MAX });
                out!("s{}", slen);
                out!("o{}", sp.wrapping_sub(base));
                out!("sc{}", scl);
                out!("so{}", scp.wrapping_sub(base));
                out!("al{}", base % align);
                out!("ts{}", if tp == base { 1 } else { 0 });
                out!("tl{}", tl);
                // the mutable ways to reach the same elements
                let bad = |code: u64, i: usize| reg::log(reg::EV_BAD, code, i as u64, 0);
                let n = self.v.len();
                let sz = F::SIZE;
                reg::noscope(|| {
                    let addr_ok = |p: usize, i: usize| sz == 0 || p == base + i * sz;
                    for i in 0..n {
                        match self.v.get_mut(i) { Some(mut e) => if !addr_ok(e.as_bytes_mut().as_ptr() as usize, i) { bad(42, i); }, None => bad(42, i) }
                        let p = { let mut e = unsafe { self.v.get_unchecked_mut(i) }; e.as_bytes_mut().as_ptr() as usize };
                        if !addr_ok(p, i) { bad(42, i); }
                        let p = { let mut e = self.v.at_mut(i); e.as_bytes_mut().as_ptr() as usize };
                        if !addr_ok(p, i) { bad(42, i); }
                    }
                    if self.v.get_mut(n).is_some() || self.v.get_mut(n + 1).is_some() || self.v.get_mut(usize::MAX).is_some() { bad(42, n); }
                    let mut k = 0usize;
                    for mut e in self.v.iter_mut() { if !addr_ok(e.as_bytes_mut().as_ptr() as usize, k) { bad(42, k); } k += 1; if k > n { break; } }
                    if k != n { bad(42, k); }
                    let mut k = 0usize;
                    for mut e in &mut self.v { if !addr_ok(e.as_bytes_mut().as_ptr() as usize, k) { bad(42, k); } k += 1; if k > n { break; } }
                    if k != n { bad(42, k); }
                    let tbase = { let mut tu = unsafe { self.v.downcast_mut_unchecked::<T>() }; tu.as_mut_ptr() as usize };
                    let mut tv = self.v.downcast_mut::<T>().expect("harness: own type");
                    if tv.as_mut_ptr() as usize != tbase || (sz != 0 && n > 0 && tbase != base) { bad(44, 2); }
                    let sl = tv.as_mut_slice().as_mut_ptr() as usize;
                    for i in 0..n {
                        let want = sl + i * std::mem::size_of::<T>();
                        if tv.get_mut(i).map(|x| x as *mut T as usize) != Some(want) { bad(41, i); }
                        if tv.at_mut(i) as *mut T as usize != want { bad(41, i); }
                        if unsafe { tv.get_unchecked_mut(i) } as *mut T as usize != want { bad(41, i); }
                    }
                    if tv.get_mut(n).is_some() || tv.get_mut(usize::MAX).is_some() { bad(41, n); }
                    if tv.iter_mut().count() != n { bad(43, n); }
                });
            }
            fn setlen_t<T: Elem>(&mut self, k: usize, typed: bool) {
                let len = self.v.len();
                if typed {
                    let mut tv = self.v.downcast_mut::<T>().expect("harness: own type");
                    let spare = tv.spare_capacity_mut();
                    for j in 0..k { spare[j].write(T::make(reg::fresh())); }
                    unsafe { tv.set_len(len + k); }
                } else {
                    let size = std::mem::size_of::<T>();
                    let spare = self.v.spare_bytes_mut();
                    for j in 0..k {
                        let x = std::mem::ManuallyDrop::new(T::make(reg::fresh()));
                        for (b, src) in spare[j * size..(j + 1) * size].iter_mut().zip(x.bytes()) { b.write(*src); }
                    }
                    unsafe { self.v.set_len(len + k); }
                }
            }
            #[allow(clippy::too_many_arguments)]
            fn run_erased<F: Family, V: AnyValue>(&mut self, r: Rng, items: Vec<V>, claimed: usize,
                yielded: std::rc::Rc<std::cell::Cell<usize>>, eats: &[(EndTok, Sink)], fin: FinTok, env: &Env<F>) {
                let rp = Repl { items: items.into_iter(), claimed, yielded };
                let mut it = self.v.splice(r, rp);
                out!("{}", it.len());
                for (end, sink) in eats {
                    let e = match end { EndTok::F => it.next(), EndTok::B => it.next_back() };
                    match e {
                        None => out!("N:{}", it.len()),
                        Some(e) => {
                            let id = reg::noscope(|| show_id(F::SIZE, e.as_bytes()));
                            let tok = sink_value!(F, e, sink, env, $clone);
                            finish_item!(tok, id, it.len());
                        }
                    }
                }
                match fin { FinTok::Drop => drop(it), FinTok::Forget => std::mem::forget(it) }
            }
        }
        impl<F: Family> DynVec<F> for DV<$Tr, $M> {
            fn ty(&self) -> u8 { self.ty }
            fn len(&self) -> usize { self.v.len() }
            fn cap(&self) -> usize { self.v.capacity() }
            fn body(&self) -> String { body_of::<F>(self.v.as_bytes(), self.v.len()) }

            fn push_src(&mut self, src: &Src) {
                match src {
                    Src::W(t) => dispatch_tag!(F, *t, [self.push_w], {}, (None)),
                    Src::R(t) => dispatch_tag!(F, *t, [self.push_r], {}, (None)),
                    Src::S(t) => dispatch_tag!(F, *t, [self.push_u], {}, (None, true)),
                    Src::Y(t) => dispatch_tag!(F, *t, [self.push_u], {}, (None, false)),
                    Src::L { .. } => unreachable!(),
                }
            }
            fn insert_src(&mut self, i: usize, src: &Src) {
                match src {
                    Src::W(t) => dispatch_tag!(F, *t, [self.push_w], {}, (Some(i))),
                    Src::R(t) => dispatch_tag!(F, *t, [self.push_r], {}, (Some(i))),
                    Src::S(t) => dispatch_tag!(F, *t, [self.push_u], {}, (Some(i), true)),
                    Src::Y(t) => dispatch_tag!(F, *t, [self.push_u], {}, (Some(i), false)),
                    Src::L { .. } => unreachable!(),
                }
            }
            fn push_fwd(&mut self, v: Forward) { self.v.push(v) }
            fn insert_fwd(&mut self, i: usize, v: Forward) { self.v.insert(i, v) }

            fn tpush(&mut self) { dispatch_tag!(F, self.ty, [self.tpush_t], {}, (None)) }
            fn tinsert(&mut self, i: usize) { dispatch_tag!(F, self.ty, [self.tpush_t], {}, (Some(i))) }
            fn tremove_op(&mut self, hk: HK, i: usize, env: &Env<F>) {
                dispatch_tag!(F, self.ty, [self.tremove_t], {F,}, (hk, i, env))
            }
            fn handle_op(&mut self, hk: HK, i: usize, sink: &Sink, env: &Env<F>) {
                match hk {
                    HK::Pop => match self.v.pop() {
                        None => out!("N"),
                        Some(h) => finish_handle!(sink_value!(F, h, sink, env, $clone)),
                    },
                    HK::Remove => {
                        let h = self.v.remove(i);
                        finish_handle!(sink_value!(F, h, sink, env, $clone))
                    }
                    HK::SwapRemove => {
                        let h = self.v.swap_remove(i);
                        finish_handle!(sink_value!(F, h, sink, env, $clone))
                    }
                }
            }
            fn clear(&mut self) { self.v.clear() }
            fn get(&self, i: usize, at: bool) {
                if at {
                    let e = self.v.at(i);
                    out!("{}", show_id(F::SIZE, e.as_bytes()));
                } else {
                    match self.v.get(i) {
                        Some(e) => out!("{}", show_id(F::SIZE, e.as_bytes())),
                        None => out!("N"),
                    }
                }
            }
            fn iter(&self, cs: &[EndTok]) {
                let mut it = self.v.iter();
                out!("{}", it.len());
                for c in cs {
                    let e = match c { EndTok::F => it.next(), EndTok::B => it.next_back() };
                    match e {
                        Some(e) => out!("{}:{}", show_id(F::SIZE, e.as_bytes()), it.len()),
                        None => out!("N:{}", it.len()),
                    }
                }
            }
            fn iter_clone(&self, pre: &[EndTok], post: &[EndTok]) {
                let mut it = self.v.iter();
                out!("{}", it.len());
                for c in pre {
                    let e = match c { EndTok::F => it.next(), EndTok::B => it.next_back() };
                    match e {
                        Some(e) => out!("{}:{}", show_id(F::SIZE, e.as_bytes()), it.len()),
                        None => out!("N:{}", it.len()),
                    }
                }
                let mut it2 = it.clone();
                drop(it);
                out!("C:{}", it2.len());
                for c in post {
                    let e = match c { EndTok::F => it2.next(), EndTok::B => it2.next_back() };
                    match e {
                        Some(e) => out!("{}:{}", show_id(F::SIZE, e.as_bytes()), it2.len()),
                        None => out!("N:{}", it2.len()),
                    }
                }
            }
            fn drain(&mut self, r: Rng, typed: bool, eats: &[(EndTok, Sink)], fin: FinTok, env: &Env<F>) {
                if !typed {
                    let use_nth = NTH_MODE.with(|m| m.get());
                    let base = self.v.as_bytes().as_ptr();
                    let start = match r.0 { Bound::Included(i) => i, Bound::Excluded(i) => i.wrapping_add(1), Bound::Unbounded => 0 };
                    let mut it = self.v.drain(r);
                    out!("{}", it.len());
                    // positions of the next item from the front / one past the next item from the back
                    let (mut front, mut back) = (start, start + it.len());
                    let mut i = 0;
                    while i < eats.len() {
                        let (end, sink) = &eats[i];
                        let mut k = 0;
                        if use_nth {
                            while i + k + 1 < eats.len() && matches!(eats[i + k].1, Sink::Drop) && eats[i + k].0 == *end
                                && eats[i + k + 1].0 == *end { k += 1; }
                        }
                        if k > 0 {
                            // the identities of the items `nth` is going to skip (and destroy), read before it does
                            let rem = it.len();
                            for j in 0..k {
                                if j < rem {
                                    let pos = match end { EndTok::F => front + j, EndTok::B => back - 1 - j };
                                    let id = reg::noscope(|| show_id(F::SIZE, unsafe { std::slice::from_raw_parts(base.add(pos * F::SIZE), F::SIZE) }));
                                    out!("{}:{}", id, rem - j - 1);
                                } else { out!("N:0"); }
                            }
                            let took = k.min(rem);
                            match end { EndTok::F => front += took, EndTok::B => back -= took }
                            let e = match end { EndTok::F => it.nth(k), EndTok::B => it.nth_back(k) };
                            let sink = &eats[i + k].1;
                            match e {
                                None => out!("N:{}", it.len()),
                                Some(e) => {
                                    match end { EndTok::F => front += 1, EndTok::B => back -= 1 }
                                    let id = reg::noscope(|| show_id(F::SIZE, e.as_bytes()));
                                    let tok = sink_value!(F, e, sink, env, $clone);
                                    finish_item!(tok, id, it.len());
                                }
                            }
                            i += k + 1;
                            continue;
                        }
                        let e = match end { EndTok::F => it.next(), EndTok::B => it.next_back() };
                        match e {
                            None => out!("N:{}", it.len()),
                            Some(e) => {
                                match end { EndTok::F => front += 1, EndTok::B => back -= 1 }
                                let id = reg::noscope(|| show_id(F::SIZE, e.as_bytes()));
                                let tok = sink_value!(F, e, sink, env, $clone);
                                finish_item!(tok, id, it.len());
                            }
                        }
                        i += 1;
                    }
                    match fin { FinTok::Drop => drop(it), FinTok::Forget => std::mem::forget(it) }
                } else {
                    dispatch_tag!(F, self.ty, [self.tdrain_t], {F,}, (r, eats, fin, env))
                }
            }
            fn splice(&mut self, r: Rng, typed: bool, repl: &[Src], claim: i64,
                      eats: &[(EndTok, Sink)], fin: FinTok, env: &Env<F>) {
                let claimed = (repl.len() as i64 + claim).max(0) as usize;
                let yielded = reg::noscope(|| std::rc::Rc::new(std::cell::Cell::new(0usize)));
                let own_ty = self.ty;
                if typed {
                    if !repl.iter().all(|s| matches!(s, Src::W(t) if *t == own_ty)) {
                        panic!("harness: bad-op typed splice item");
                    }
                    dispatch_tag!(F, own_ty, [self.tsplice_t], {F,}, (r, repl.len(), claimed, yielded, eats, fin, env));
                    return;
                }
                // homogeneous wrapper items keep the compile-time typed write path
                let same_t = match repl.first() { Some(Src::W(t0)) => repl.iter().all(|s| matches!(s, Src::W(t) if t == t0)), _ => false };
                if same_t {
                    let t0 = match repl[0] { Src::W(t) => t, _ => unreachable!() };
                    dispatch_tag!(F, t0, [self.splice_w], {F,}, (r, repl.len(), claimed, yielded, eats, fin, env));
                    return;
                }
                // mixed: boxed erased items; raw slots are owned here
                let mut slots: Vec<(usize, u8, Box<dyn RawSlotDyn>)> = Vec::new();
                let mut lazies: Vec<std::cell::Ref<Option<Box<dyn DynVec<F>>>>> = Vec::new();
                let mut items: Vec<BoxedVal> = Vec::new();
                {
                    let _g = reg::NoScope::new();
                    for (k, s) in repl.iter().enumerate() {
                        match s {
                            Src::W(t) => items.push(dispatch_tag!(F, *t, [boxed_w], {}, ())),
                            Src::R(t) => {
                                let (b, slot) = dispatch_tag!(F, *t, [boxed_r], {}, ());
                                items.push(b);
                                slots.push((k, *t, slot));
                            }
                            Src::S(_) | Src::Y(_) => panic!("harness: bad-op unchecked raw pointers are not splice items"),
                            Src::L { v, i, d } => {
                                let b = env.vecs[*v].borrow();
                                // keep the source borrowed for the rest of this call
                                let bref: &Option<Box<dyn DynVec<F>>> = unsafe { &*(&*b as *const _) };
                                lazies.push(b);
                                items.push(bref.as_ref().unwrap().lazy_item(*i, *d));
                            }
                        }
                    }
                }
                let vec_ty = self.ty;
                struct Settle<'s> { slots: &'s mut Vec<(usize, u8, Box<dyn RawSlotDyn>)>, yielded: std::rc::Rc<std::cell::Cell<usize>>, vec_ty: u8, forget: bool }
                impl<'s> Drop for Settle<'s> {
                    fn drop(&mut self) {
                        // a raw value was taken by the library iff it was handed out and had the right type
                        let y = self.yielded.get();
                        for (k, t, s) in self.slots.iter_mut() {
                            if !self.forget && *k < y && *t == self.vec_ty { s.set_taken(); }
                        }
                    }
                }
                let settle = Settle { slots: &mut slots, yielded: yielded.clone(), vec_ty, forget: matches!(fin, FinTok::Forget) };
                self.run_erased::<F, _>(r, items, claimed, yielded.clone(), eats, fin, env);
                drop(settle);
                drop(slots);
                drop(lazies);
            }
            fn lazy_ref_to(&self, i: usize, depth: u8, dst: &mut dyn DynVec<F>, at: Option<usize>) {
                impl_kind!(@lazyref $clone, self, i, depth, dst, at)
            }
            fn lazy_dc(&self, i: usize, depth: u8, ty: u8, env: &Env<F>) {
                impl_kind!(@lazydc $clone, self, i, depth, ty, env, F)
            }
            fn lazy_item<'a>(&'a self, i: usize, depth: u8) -> BoxedVal<'a> {
                impl_kind!(@lazyitem $clone, self, i, depth)
            }
            fn clone_vec(&self) -> Box<dyn DynVec<F>> {
                impl_kind!(@clone $clone, self)
            }
            fn clone_empty_in(&self, bk: Option<&str>) -> Box<dyn DynVec<F>> {
                match bk {
                    None => { let v = self.v.clone_empty(); let ty = self.ty; reg::noscope(|| Box::new(DV { v, ty })) }
                    Some(b) => impl_kind!(@cei $cei, $Tr, self, b),
                }
            }
            fn capacity_op(&mut self, op: &str, n: usize) {
                impl_kind!(@cap $resize, self, op, n)
            }
            fn info(&self) {
                let l = self.v.element_layout();
                out!("t{}", tag_of::<F>(self.v.element_typeid()));
                out!("s{}", l.size());
                out!("a{}", l.align());
                out!("l{}", self.v.len());
                out!("c{}", self.v.capacity());
                out!("e{}", if self.v.is_empty() { 1 } else { 0 });
                out!("d{}", if self.v.element_drop().is_some() { 1 } else { 0 });
            }
            fn dcvec(&mut self, ty: u8) { dispatch_tag!(F, ty, [self.dcvec_t], {}, ()) }
            fn wswap(&mut self, i: usize, ty: u8) { dispatch_tag!(F, ty, [self.wswap_t], {F,}, (i)) }
            fn tassign(&mut self, i: usize) { dispatch_tag!(F, self.ty, [self.tassign_t], {}, (i)) }
            fn swapb(&mut self, i: usize, j: usize) {
                let size = F::SIZE;
                let b = self.v.as_bytes_mut();
                for k in 0..size { b.swap(i * size + k, j * size + k); }
            }
            fn tswap(&mut self, i: usize, j: usize) { dispatch_tag!(F, self.ty, [self.tswap_t], {}, (i, j)) }
            fn eswap_with(&mut self, i: usize, other: &mut dyn DynVec<F>, j: usize) {
                let mut a = self.v.at_mut(i);
                other.with_elem_mut(j, &mut |b: &mut dyn ErasedMut| {
                    let mut fb = FwdMut(b);
                    a.swap(&mut fb);
                });
            }
            fn with_elem_mut(&mut self, j: usize, f: &mut dyn FnMut(&mut dyn ErasedMut)) {
                let mut b = self.v.at_mut(j);
                f(&mut *b);
            }
            fn probe(&self) { dispatch_tag!(F, self.ty, [self.probe_t], {F,}, ()) }
            fn storage_ptr(&self) -> usize { self.v.as_bytes().as_ptr() as usize }
            fn views(&mut self) { dispatch_tag!(F, self.ty, [self.views_t], {F,}, ()) }
            fn setlen(&mut self, k: usize, typed: bool) { dispatch_tag!(F, self.ty, [self.setlen_t], {}, (k, typed)) }
            fn rawrt(&mut self) { impl_kind!(@rawrt $raw, self) }
            fn rawparts(&mut self) { impl_kind!(@rawparts $raw, self, F) }
        }
    };
    (@lazyref yes, $s:ident, $i:ident, $depth:ident, $dst:ident, $at:ident) => {{
        let e = $s.v.at($i);
        match $depth {
            1 => fwd_to(e.lazy_clone(), $dst, $at),
            2 => { let l1 = e.lazy_clone(); fwd_to(l1.lazy_clone(), $dst, $at) }
            _ => { let l1 = e.lazy_clone(); let l2 = l1.lazy_clone(); fwd_to(l2.lazy_clone(), $dst, $at) }
        }
    }};
    (@lazyref no, $s:ident, $i:ident, $depth:ident, $dst:ident, $at:ident) => {{
        let _ = ($i, $depth, &$dst, $at);
        panic!("harness: bad-op lazy clone on a non-Cloneable vector")
    }};
    (@lazydc yes, $s:ident, $i:ident, $depth:ident, $ty:ident, $env:ident, $F:ty) => {{
        // `v.at(i).lazy_clone()[.lazy_clone()..].downcast::<T>()`
        let e = $s.v.at($i);
        let tok = match $depth {
            1 => if $ty == 9 { sink_dc_unknown(e.lazy_clone()) } else { dispatch_tag!($F, $ty, [sink_dc], {$F, _,}, (e.lazy_clone(), $env)) },
            2 => { let l1 = e.lazy_clone(); dispatch_tag!($F, $ty, [sink_dc], {$F, _,}, (l1.lazy_clone(), $env)) }
            _ => { let l1 = e.lazy_clone(); let l2 = l1.lazy_clone();
                   dispatch_tag!($F, $ty, [sink_dc], {$F, _,}, (l2.lazy_clone(), $env)) }
        };
        match tok { Tok::N => out!("N"), Tok::Id(s) => out!("{}", s), _ => {} }
    }};
    (@lazydc no, $s:ident, $i:ident, $depth:ident, $ty:ident, $env:ident, $F:ty) => {{
        let _ = ($i, $depth, $ty, $env);
        panic!("harness: bad-op lazy clone on a non-Cloneable vector")
    }};
    (@lazyitem yes, $s:ident, $i:ident, $depth:ident) => {{
        let _g = reg::NoScope::new();
        let e: &'a _ = Box::leak(Box::new($s.v.at($i)));
        match $depth {
            1 => BoxedVal::new(e.lazy_clone()),
            _ => { let l1: &'a _ = Box::leak(Box::new(e.lazy_clone())); BoxedVal::new(l1.lazy_clone()) }
        }
    }};
    (@lazyitem no, $s:ident, $i:ident, $depth:ident) => {{
        let _ = ($i, $depth);
        panic!("harness: bad-op lazy clone on a non-Cloneable vector")
    }};
    (@clone yes, $s:ident) => {{ let v = $s.v.clone(); let ty = $s.ty; reg::noscope(|| Box::new(DV { v, ty })) }};
    (@clone no, $s:ident) => { panic!("harness: bad-op clone of a non-Cloneable vector") };
    (@cei yes, $Tr:ty, $s:ident, $b:ident) => {
        match $b {
            #[cfg(feature = "alloc")]
            "heap" => { let v = $s.v.clone_empty_in(Heap); let ty = $s.ty; let b: Box<dyn DynVec<F>> = reg::noscope(|| Box::new(DV::<$Tr, Heap> { v, ty })); b }
            "stack:48" => { let v = $s.v.clone_empty_in(Stack::<48>); let ty = $s.ty; reg::noscope(|| Box::new(DV::<$Tr, Stack<48>> { v, ty })) },
            "stackn:2:48" => { let v = $s.v.clone_empty_in(StackN::<2, 48>); let ty = $s.ty; reg::noscope(|| Box::new(DV::<$Tr, StackN<2, 48>> { v, ty })) },
            "reloc" => { let v = $s.v.clone_empty_in(Reloc); let ty = $s.ty; reg::noscope(|| Box::new(DV::<$Tr, Reloc> { v, ty })) },
            _ => panic!("harness: bad-op clone_empty_in target"),
        }
    };
    (@cei no, $Tr:ty, $s:ident, $b:ident) => {{ let _ = $b; panic!("harness: bad-op clone_empty_in on this kind") }};
    (@cap yes, $s:ident, $op:ident, $n:ident) => {
        match $op {
            "reserve" => $s.v.reserve($n),
            "reserveexact" => $s.v.reserve_exact($n),
            "shrinktofit" => $s.v.shrink_to_fit(),
            "shrinkto" => $s.v.shrink_to($n),
            _ => panic!("harness: bad-op capacity op"),
        }
    };
    (@rawrt yes, $s:ident) => {{
        unsafe {
            let v = std::ptr::read(&$s.v);
            let parts = v.into_raw_parts();
            let v2 = AnyVec::from_raw_parts(parts);
            std::ptr::write(&mut $s.v, v2);
        }
    }};
    (@rawrt no, $s:ident) => { panic!("harness: bad-op raw parts on this backend") };
    (@rawparts yes, $s:ident, $F:ty) => {{
        unsafe {
            let v = std::ptr::read(&$s.v);
            let parts = v.into_raw_parts();
            let cl = parts.clone();
            for p in [&parts, &cl] {
                out!("l{}", p.len);
                out!("c{}", p.capacity);
                out!("s{}", p.element_layout.size());
                out!("a{}", p.element_layout.align());
                out!("t{}", tag_of::<$F>(p.element_typeid));
                out!("d{}", if p.element_drop.is_some() { 1 } else { 0 });
            }
            std::mem::forget(cl);
            let v2 = AnyVec::from_raw_parts(parts);
            std::ptr::write(&mut $s.v, v2);
        }
    }};
    (@rawparts no, $s:ident, $F:ty) => { panic!("harness: bad-op raw parts on this backend") };
    (@cap no, $s:ident, $op:ident, $n:ident) => {{ let _ = ($op, $n); panic!("harness: bad-op capacity op on a fixed backend") }};
}

// core kinds (every element family)
#[cfg(feature = "alloc")]
impl_kind!(dyn Cloneable, Heap, yes, yes, yes, yes);
#[cfg(feature = "alloc")]
impl_kind!(dyn TNone, Heap, no, yes, no, yes);
impl_kind!(dyn Cloneable, Stack<48>, yes, no, yes, no);
impl_kind!(dyn Cloneable, Stack<512>, yes, no, yes, no);
impl_kind!(dyn Cloneable, StackN<2, 48>, yes, no, yes, no);
impl_kind!(dyn Cloneable, StackN<3, 512>, yes, no, yes, no);
impl_kind!(dyn Cloneable, Reloc, yes, yes, yes, yes);
impl_kind!(dyn TNone, Reloc, no, yes, no, yes);
impl_kind!(dyn Cloneable, Empty, yes, no, yes, yes);
// extra kinds (the 8-byte families only)
#[cfg(feature = "alloc")]
impl_kind!(dyn Send, Heap, no, yes, no, yes);
#[cfg(feature = "alloc")]
impl_kind!(dyn Sync, Heap, no, yes, no, yes);
#[cfg(feature = "alloc")]
impl_kind!(dyn Send + Sync, Heap, no, yes, no, yes);
#[cfg(feature = "alloc")]
impl_kind!(dyn Cloneable + Send, Heap, yes, yes, no, yes);
#[cfg(feature = "alloc")]
impl_kind!(dyn Cloneable + Sync, Heap, yes, yes, no, yes);
#[cfg(feature = "alloc")]
impl_kind!(dyn Cloneable + Send + Sync, Heap, yes, yes, no, yes);
impl_kind!(dyn Cloneable, Stack<15>, yes, no, yes, no);
impl_kind!(dyn Cloneable, Stack<16>, yes, no, yes, no);
impl_kind!(dyn Cloneable, Stack<17>, yes, no, yes, no);
impl_kind!(dyn Cloneable, StackN<2, 15>, yes, no, yes, no);
impl_kind!(dyn Cloneable, StackN<2, 16>, yes, no, yes, no);
impl_kind!(dyn Cloneable, StackN<2, 17>, yes, no, yes, no);

macro_rules! mk {
    ($F:ty, $Tr:ty, $M:ty, $ty:expr, $cap:expr, sizeable) => {{
        macro_rules! arm { ($T:ty) => {{
            let v: AnyVec<$Tr, $M> = match $cap {
                None => AnyVec::new::<$T>(),
                Some(n) => AnyVec::with_capacity::<$T>(n),
            };
            Some(reg::noscope(|| Box::new(DV { v, ty: $ty })) as Box<dyn DynVec<$F>>)
        }}; }
        match $ty { 0 => arm!(<$F as Family>::T0), 1 => arm!(<$F as Family>::T1),
                    2 => arm!(<$F as Family>::T2), 3 => arm!(<$F as Family>::T3),
                    _ => panic!("harness: no such type tag") }
    }};
    ($F:ty, $Tr:ty, $M:ty, $ty:expr, $cap:expr, fixed) => {{
        if $cap.is_some() { panic!("harness: bad-op with_capacity on a fixed backend"); }
        macro_rules! arm { ($T:ty) => {{
            let v: AnyVec<$Tr, $M> = AnyVec::new::<$T>();
            Some(reg::noscope(|| Box::new(DV { v, ty: $ty })) as Box<dyn DynVec<$F>>)
        }}; }
        match $ty { 0 => arm!(<$F as Family>::T0), 1 => arm!(<$F as Family>::T1),
                    2 => arm!(<$F as Family>::T2), 3 => arm!(<$F as Family>::T3),
                    _ => panic!("harness: no such type tag") }
    }};
}

pub trait ExtraKinds<F: Family> {
    fn make(ty: u8, bk: &str, traits: &str, cap: Option<usize>) -> Option<Box<dyn DynVec<F>>>;
}
pub struct NoExtra;
impl<F: Family> ExtraKinds<F> for NoExtra {
    fn make(_: u8, _: &str, _: &str, _: Option<usize>) -> Option<Box<dyn DynVec<F>>> { None }
}
pub struct FullExtra;
impl<F: Family> ExtraKinds<F> for FullExtra {
    fn make(ty: u8, bk: &str, traits: &str, cap: Option<usize>) -> Option<Box<dyn DynVec<F>>> {
        match (bk, traits) {
            #[cfg(feature = "alloc")]
            ("heap", "send") => mk!(F, dyn Send, Heap, ty, cap, sizeable),
            #[cfg(feature = "alloc")]
            ("heap", "sync") => mk!(F, dyn Sync, Heap, ty, cap, sizeable),
            #[cfg(feature = "alloc")]
            ("heap", "send+sync") => mk!(F, dyn Send + Sync, Heap, ty, cap, sizeable),
            #[cfg(feature = "alloc")]
            ("heap", "clone+send") => mk!(F, dyn Cloneable + Send, Heap, ty, cap, sizeable),
            #[cfg(feature = "alloc")]
            ("heap", "clone+sync") => mk!(F, dyn Cloneable + Sync, Heap, ty, cap, sizeable),
            #[cfg(feature = "alloc")]
            ("heap", "clone+send+sync") => mk!(F, dyn Cloneable + Send + Sync, Heap, ty, cap, sizeable),
            ("stack:15", "clone") => mk!(F, dyn Cloneable, Stack<15>, ty, cap, fixed),
            ("stack:16", "clone") => mk!(F, dyn Cloneable, Stack<16>, ty, cap, fixed),
            ("stack:17", "clone") => mk!(F, dyn Cloneable, Stack<17>, ty, cap, fixed),
            ("stackn:2:15", "clone") => mk!(F, dyn Cloneable, StackN<2, 15>, ty, cap, fixed),
            ("stackn:2:16", "clone") => mk!(F, dyn Cloneable, StackN<2, 16>, ty, cap, fixed),
            ("stackn:2:17", "clone") => mk!(F, dyn Cloneable, StackN<2, 17>, ty, cap, fixed),
            _ => None,
        }
    }
}

pub fn make_vec<F: Family>(ty: u8, bk: &str, traits: &str, cap: Option<usize>) -> Box<dyn DynVec<F>> {
    let r: Option<Box<dyn DynVec<F>>> = match (bk, traits) {
        #[cfg(feature = "alloc")]
        ("heap", "clone") => mk!(F, dyn Cloneable, Heap, ty, cap, sizeable),
        #[cfg(feature = "alloc")]
        ("heap", "none") => mk!(F, dyn TNone, Heap, ty, cap, sizeable),
        ("stack:48", "clone") => mk!(F, dyn Cloneable, Stack<48>, ty, cap, fixed),
        ("stack:512", "clone") => mk!(F, dyn Cloneable, Stack<512>, ty, cap, fixed),
        ("stackn:2:48", "clone") => mk!(F, dyn Cloneable, StackN<2, 48>, ty, cap, fixed),
        ("stackn:3:512", "clone") => mk!(F, dyn Cloneable, StackN<3, 512>, ty, cap, fixed),
        ("reloc", "clone") => mk!(F, dyn Cloneable, Reloc, ty, cap, sizeable),
        ("reloc", "none") => mk!(F, dyn TNone, Reloc, ty, cap, sizeable),
        ("empty", "clone") => mk!(F, dyn Cloneable, Empty, ty, cap, fixed),
        _ => <F::Extra as ExtraKinds<F>>::make(ty, bk, traits, cap),
    };
    r.unwrap_or_else(|| panic!("harness: bad-op unknown vector kind {} {}", bk, traits))
}
