//! `Reloc`: a user-defined resizable storage backend that moves the storage on every capacity
//! change, poison-fills fresh and released memory, surrounds the block with guard zones and
//! keeps released blocks in quarantine (checked for writes after release).

use any_vec::mem::{Mem, MemBuilder, MemBuilderSizeable, MemRawParts, MemResizable};
use std::alloc::{GlobalAlloc, Layout, System};
use std::cell::RefCell;

use crate::reg;

const GUARD: usize = 128;
const POISON_NEW: u8 = 0xCD;
const POISON_FREE: u8 = 0xDD;
const GUARD_BYTE: u8 = 0xA5;

thread_local! {
    /// (base, total bytes, align) of released blocks, still poisoned
    static QUARANTINE: RefCell<Vec<(usize, usize, usize)>> = RefCell::new(Vec::new());
    /// (pointer, bytes, element size) of the blocks currently owned by some `RelocMem`
    static LIVE: RefCell<Vec<(usize, usize, usize)>> = RefCell::new(Vec::new());
}

fn live_add(p: *mut u8, bytes: usize, elem: usize) {
    let _ns = reg::NoScope::new();
    LIVE.with(|l| l.borrow_mut().push((p as usize, bytes, elem)));
}
fn live_del(p: *mut u8) {
    let _ns = reg::NoScope::new();
    LIVE.with(|l| l.borrow_mut().retain(|e| e.0 != p as usize));
}
/// after every step: no slot of a live block may consist of guard bytes (an over-read past the
/// capacity that was copied into the block) or of released-memory poison (a read through a stale
/// pointer). Element sizes below 2 are skipped: one byte could be a legitimate identity.
pub fn reset_live() { let _ns = reg::NoScope::new(); LIVE.with(|l| l.borrow_mut().clear()); }
pub fn scan_live() {
    LIVE.with(|l| {
        for &(p, bytes, elem) in l.borrow().iter() {
            if elem < 2 { continue; }
            let b = p as *const u8;
            let mut k = 0;
            let lim = bytes.min(1 << 16);
            while k + elem <= lim {
                unsafe {
                    let first = *b.add(k);
                    if first == GUARD_BYTE || first == POISON_FREE {
                        let mut all = true;
                        for j in 1..elem { if *b.add(k + j) != first { all = false; break; } }
                        if all {
                            reg::log(reg::EV_BAD, if first == GUARD_BYTE { 22 } else { 23 }, (k / elem) as u64, 0);
                            return;
                        }
                    }
                }
                k += elem;
            }
        }
    });
}

fn guard_for(align: usize) -> usize { GUARD.max(align) }

unsafe fn raw_alloc(bytes: usize, align: usize) -> *mut u8 {
    let g = guard_for(align);
    let total = bytes + 2 * g;
    let base = System.alloc(Layout::from_size_align(total, align).unwrap());
    assert!(!base.is_null());
    std::ptr::write_bytes(base, GUARD_BYTE, g);
    std::ptr::write_bytes(base.add(g), POISON_NEW, bytes);
    std::ptr::write_bytes(base.add(g + bytes), GUARD_BYTE, g);
    base.add(g)
}
unsafe fn check_guards(p: *mut u8, bytes: usize, align: usize) {
    let g = guard_for(align);
    let base = p.sub(g);
    for k in 0..g {
        if *base.add(k) != GUARD_BYTE || *p.add(bytes + k) != GUARD_BYTE {
            reg::log(reg::EV_BAD, 20, k as u64, 0);
            return;
        }
    }
}
unsafe fn raw_release(p: *mut u8, bytes: usize, align: usize) {
    check_guards(p, bytes, align);
    let g = guard_for(align);
    let base = p.sub(g);
    let total = bytes + 2 * g;
    std::ptr::write_bytes(base, POISON_FREE, total);
    let _ns = reg::NoScope::new();
    QUARANTINE.with(|q| q.borrow_mut().push((base as usize, total, align)));
}
/// end of case: verify nobody wrote to released blocks, then really free them
pub fn flush_quarantine() {
    QUARANTINE.with(|q| {
        for (base, total, align) in q.borrow_mut().drain(..) {
            unsafe {
                let b = base as *mut u8;
                for k in 0..total {
                    if *b.add(k) != POISON_FREE { reg::log(reg::EV_BAD, 21, k as u64, 0); break; }
                }
                System.dealloc(b, Layout::from_size_align(total, align).unwrap());
            }
        }
    });
}

#[derive(Clone, Copy, Default)]
pub struct Reloc;

pub struct RelocMem {
    ptr: *mut u8,
    size: usize,
    layout: Layout,
}
unsafe impl Send for RelocMem {}
unsafe impl Sync for RelocMem {}

impl MemBuilder for Reloc {
    type Mem = RelocMem;
    fn build(&mut self, element_layout: Layout) -> RelocMem {
        reg::log(reg::EV_MB, 0, 0, 0);
        RelocMem { ptr: element_layout.align() as *mut u8, size: 0, layout: element_layout }
    }
}
impl MemBuilderSizeable for Reloc {
    fn build_with_size(&mut self, element_layout: Layout, capacity: usize) -> RelocMem {
        let mut m = self.build(element_layout);
        m.resize(capacity);
        m
    }
}
impl Mem for RelocMem {
    fn as_ptr(&self) -> *const u8 { self.ptr }
    fn as_mut_ptr(&mut self) -> *mut u8 { self.ptr }
    fn element_layout(&self) -> Layout { self.layout }
    fn size(&self) -> usize { self.size }
    fn expand(&mut self, additional: usize) {
        let requested = self.size.checked_add(additional).expect("capacity overflow");
        let new_size = std::cmp::max(self.size + self.size / 2, requested);
        self.resize(new_size);
        reg::log(reg::EV_ME, additional as u64, 0, 0);
    }
}
impl MemResizable for RelocMem {
    fn resize(&mut self, new_size: usize) {
        let bytes = self.layout.size().checked_mul(new_size).expect("capacity overflow");
        if bytes > (1 << 30) { panic!("reloc: too big"); }
        reg::log(reg::EV_MR, new_size as u64, 0, 0);
        let old_bytes = self.layout.size() * self.size;
        unsafe {
            let np = if bytes == 0 { self.layout.align() as *mut u8 }
                     else { raw_alloc(bytes, self.layout.align()) };
            if old_bytes != 0 {
                std::ptr::copy_nonoverlapping(self.ptr, np, old_bytes.min(bytes));
                live_del(self.ptr);
                raw_release(self.ptr, old_bytes, self.layout.align());
            }
            if bytes != 0 { live_add(np, bytes, self.layout.size()); }
            self.ptr = np;
        }
        self.size = new_size;
    }
}
impl Drop for RelocMem {
    fn drop(&mut self) {
        reg::log(reg::EV_MD, 0, 0, 0);
        let old_bytes = self.layout.size() * self.size;
        if old_bytes != 0 {
            live_del(self.ptr);
            unsafe { raw_release(self.ptr, old_bytes, self.layout.align()); }
        }
        self.size = 0;
    }
}
impl MemRawParts for RelocMem {
    type Handle = *mut u8;
    fn into_raw_parts(self) -> (Self::Handle, Layout, usize) {
        let this = std::mem::ManuallyDrop::new(self);
        (this.ptr, this.layout, this.size)
    }
    unsafe fn from_raw_parts(handle: Self::Handle, element_layout: Layout, size: usize) -> Self {
        Self { ptr: handle, size, layout: element_layout }
    }
}
