//! Identity-tagged element types: plain bytes `{id, canary}`, with and without drop glue,
//! several `TypeId`-distinct variants per layout.

use crate::reg;

pub fn encode(id: u64, buf: &mut [u8]) {
    let le = id.to_le_bytes();
    for (k, b) in buf.iter_mut().enumerate() {
        *b = if k < 8 { le[k] } else { (id as u8) ^ (k as u8).wrapping_mul(37) ^ 0x5A };
    }
}
/// (identity as far as the bytes can tell, canary intact)
pub fn decode(buf: &[u8]) -> (u64, bool) {
    let mut le = [0u8; 8];
    for k in 0..buf.len().min(8) { le[k] = buf[k]; }
    let id = u64::from_le_bytes(le);
    let mut ok = true;
    for k in 8..buf.len() {
        if buf[k] != (id as u8) ^ (k as u8).wrapping_mul(37) ^ 0x5A { ok = false; }
    }
    (id, ok)
}
pub fn show_id(size: usize, bytes: &[u8]) -> String {
    if size == 0 { return "z".to_string(); }
    let (id, ok) = decode(bytes);
    if ok { format!("{}", id) } else { format!("{}!", id) }
}

pub trait Elem: 'static + Clone + Send + Sync {
    fn make(id: u64) -> Self;
    fn bytes(&self) -> &[u8];
    fn id_str(&self) -> String { show_id(std::mem::size_of::<Self>(), self.bytes()) }
}

macro_rules! def_elem {
    ($d:ident, $n:ident, $align:literal) => {
        #[repr(C, align($align))]
        pub struct $d<const N: usize, const TAG: u8> { b: [u8; N] }
        impl<const N: usize, const TAG: u8> Elem for $d<N, TAG> {
            fn make(id: u64) -> Self { let mut b = [0u8; N]; encode(id, &mut b); Self { b } }
            fn bytes(&self) -> &[u8] { &self.b }
        }
        impl<const N: usize, const TAG: u8> Clone for $d<N, TAG> {
            fn clone(&self) -> Self { Self::make(reg::on_clone(decode(&self.b).0)) }
        }
        impl<const N: usize, const TAG: u8> Drop for $d<N, TAG> {
            fn drop(&mut self) { reg::on_drop(decode(&self.b).0) }
        }
        #[repr(C, align($align))]
        pub struct $n<const N: usize, const TAG: u8> { b: [u8; N] }
        impl<const N: usize, const TAG: u8> Elem for $n<N, TAG> {
            fn make(id: u64) -> Self { let mut b = [0u8; N]; encode(id, &mut b); Self { b } }
            fn bytes(&self) -> &[u8] { &self.b }
        }
        impl<const N: usize, const TAG: u8> Clone for $n<N, TAG> {
            fn clone(&self) -> Self { Self::make(reg::on_clone(decode(&self.b).0)) }
        }
    };
}
def_elem!(D1, N1, 1);
def_elem!(D2, N2, 2);
def_elem!(D4, N4, 4);
def_elem!(D8, N8, 8);
def_elem!(D16, N16, 16);
def_elem!(D32, N32, 32);
def_elem!(D64, N64, 64);

/// all element types of one case: one layout, four distinct type ids
pub trait Family: 'static {
    type T0: Elem;
    type T1: Elem;
    type T2: Elem;
    type T3: Elem;
    type Extra: crate::dynvec::ExtraKinds<Self> where Self: Sized;
    const SIZE: usize;
    const ALIGN: usize;
    const DROP: bool;
}

macro_rules! fam {
    ($name:ident, $t:ident, $size:literal, $align:literal, $drop:literal, $extra:ty, $t2:literal, $t3:literal) => {
        pub struct $name;
        impl Family for $name {
            type T0 = $t<$size, 0>;
            type T1 = $t<$size, 1>;
            type T2 = $t<$size, $t2>;
            type T3 = $t<$size, $t3>;
            type Extra = $extra;
            const SIZE: usize = $size;
            const ALIGN: usize = $align;
            const DROP: bool = $drop;
        }
    };
}
use crate::dynvec::{FullExtra, NoExtra};
fam!(F0A1D, D1, 0, 1, true, NoExtra, 0, 1);
fam!(F0A1N, N1, 0, 1, false, NoExtra, 0, 1);
fam!(F1A1D, D1, 1, 1, true, NoExtra, 0, 1);
fam!(F1A1N, N1, 1, 1, false, NoExtra, 0, 1);
fam!(F2A2D, D2, 2, 2, true, NoExtra, 0, 1);
fam!(F2A1N, N1, 2, 1, false, NoExtra, 0, 1);
fam!(F3A1D, D1, 3, 1, true, NoExtra, 0, 1);
fam!(F3A1N, N1, 3, 1, false, NoExtra, 0, 1);
fam!(F8A8D, D8, 8, 8, true, FullExtra, 2, 3);
fam!(F8A8N, N8, 8, 8, false, FullExtra, 2, 3);
fam!(F8A4D, D4, 8, 4, true, NoExtra, 0, 1);
fam!(F12A4D, D4, 12, 4, true, NoExtra, 0, 1);
fam!(F12A4N, N4, 12, 4, false, NoExtra, 0, 1);
fam!(F16A16D, D16, 16, 16, true, NoExtra, 0, 1);
fam!(F16A8N, N8, 16, 8, false, NoExtra, 0, 1);
fam!(F24A8D, D8, 24, 8, true, NoExtra, 0, 1);
fam!(F24A8N, N8, 24, 8, false, NoExtra, 0, 1);
fam!(F64A64D, D64, 64, 64, true, NoExtra, 0, 1);
fam!(F160A32D, D32, 160, 32, true, NoExtra, 0, 1);
fam!(F160A32N, N32, 160, 32, false, NoExtra, 0, 1);

#[macro_export]
macro_rules! with_family {
    ($size:expr, $align:expr, $drop:expr, $f:ident, $($args:expr),*) => {
        match ($size, $align, $drop) {
            (0, 1, true) => $f::<$crate::elem::F0A1D>($($args),*),
            (0, 1, false) => $f::<$crate::elem::F0A1N>($($args),*),
            (1, 1, true) => $f::<$crate::elem::F1A1D>($($args),*),
            (1, 1, false) => $f::<$crate::elem::F1A1N>($($args),*),
            (2, 2, true) => $f::<$crate::elem::F2A2D>($($args),*),
            (2, 1, false) => $f::<$crate::elem::F2A1N>($($args),*),
            (3, 1, true) => $f::<$crate::elem::F3A1D>($($args),*),
            (3, 1, false) => $f::<$crate::elem::F3A1N>($($args),*),
            (8, 8, true) => $f::<$crate::elem::F8A8D>($($args),*),
            (8, 8, false) => $f::<$crate::elem::F8A8N>($($args),*),
            (8, 4, true) => $f::<$crate::elem::F8A4D>($($args),*),
            (12, 4, true) => $f::<$crate::elem::F12A4D>($($args),*),
            (12, 4, false) => $f::<$crate::elem::F12A4N>($($args),*),
            (16, 16, true) => $f::<$crate::elem::F16A16D>($($args),*),
            (16, 8, false) => $f::<$crate::elem::F16A8N>($($args),*),
            (24, 8, true) => $f::<$crate::elem::F24A8D>($($args),*),
            (24, 8, false) => $f::<$crate::elem::F24A8N>($($args),*),
            (64, 64, true) => $f::<$crate::elem::F64A64D>($($args),*),
            (160, 32, true) => $f::<$crate::elem::F160A32D>($($args),*),
            (160, 32, false) => $f::<$crate::elem::F160A32N>($($args),*),
            _ => panic!("harness: no element family for this layout"),
        }
    };
}
