//! Executes operation scripts on the real `any_vec` crate and prints one canonical observation
//! line per operation (same format as the Lean model driver; see DESIGN.md appendix D).

mod reg;
mod elem;
mod reloc;
mod dynvec;

use std::cell::RefCell;
use std::io::{BufRead, Write};
use std::ops::Bound;
use std::panic::{catch_unwind, AssertUnwindSafe};

use dynvec::*;
use elem::Family;

#[global_allocator]
static GLOBAL: reg::Tracking = reg::Tracking;

fn parse_sink(s: &str) -> Option<Sink> {
    if s == "drop" { return Some(Sink::Drop); }
    if s == "forget" { return Some(Sink::Forget); }
    if let Some(r) = s.strip_prefix("dc") { return r.parse().ok().map(Sink::Dc); }
    if let Some(r) = s.strip_prefix("push") { return r.parse().ok().map(Sink::Push); }
    if let Some(r) = s.strip_prefix("ins") {
        let p: Vec<&str> = r.split('.').collect();
        if p.len() == 2 { return Some(Sink::Ins(p[0].parse().ok()?, p[1].parse().ok()?)); }
        return None;
    }
    if let Some(r) = s.strip_prefix("lazy") {
        let p: Vec<&str> = r.split('.').collect();
        if p.len() == 2 { return Some(Sink::Lazy(p[0].parse().ok()?, p[1].parse().ok()?)); }
        return None;
    }
    if s == "info" { return Some(Sink::Info); }
    if let Some(r) = s.strip_prefix("swapr") { return r.parse().ok().map(Sink::SwapRaw); }
    if let Some(r) = s.strip_prefix("swap") { return r.parse().ok().map(Sink::Swap); }
    None
}
fn parse_src(s: &str) -> Option<Src> {
    if let Some(r) = s.strip_prefix('w') { return r.parse().ok().map(Src::W); }
    if let Some(r) = s.strip_prefix('r') { return r.parse().ok().map(Src::R); }
    if let Some(r) = s.strip_prefix('s') { return r.parse().ok().map(Src::S); }
    if let Some(r) = s.strip_prefix('y') { return r.parse().ok().map(Src::Y); }
    if let Some(r) = s.strip_prefix('l') {
        let p: Vec<&str> = r.split('.').collect();
        if p.len() == 3 {
            return Some(Src::L { v: p[0].parse().ok()?, i: p[1].parse().ok()?, d: p[2].parse().ok()? });
        }
    }
    None
}
fn parse_bnd(s: &str) -> Option<Bound<usize>> {
    if s == "u" { return Some(Bound::Unbounded); }
    if let Some(r) = s.strip_prefix('i') { return r.parse().ok().map(Bound::Included); }
    if let Some(r) = s.strip_prefix('e') { return r.parse().ok().map(Bound::Excluded); }
    None
}
fn parse_eats(s: &str) -> Option<Vec<(EndTok, Sink)>> {
    if s == "-" { return Some(vec![]); }
    s.split(',').map(|t| {
        let (e, k) = t.split_once(':')?;
        let e = match e { "F" => EndTok::F, "B" => EndTok::B, _ => return None };
        Some((e, parse_sink(k)?))
    }).collect()
}
fn parse_srcs(s: &str) -> Option<Vec<Src>> {
    if s == "-" { return Some(vec![]); }
    s.split(',').map(parse_src).collect()
}
fn parse_ends(s: &str) -> Option<Vec<EndTok>> {
    if s == "-" { return Some(vec![]); }
    s.chars().map(|c| match c { 'F' => Some(EndTok::F), 'B' => Some(EndTok::B), _ => None }).collect()
}
fn parse_fin(s: &str) -> Option<FinTok> {
    match s { "drop" => Some(FinTok::Drop), "forget" => Some(FinTok::Forget), _ => None }
}

fn trunc(size: usize, id: u64) -> u64 {
    if size >= 8 { id } else if size == 0 { 0 } else { id % (1u64 << (8 * size)) }
}

fn show_events<F: Family>(evs: &[[u64; 4]]) -> String {
    if evs.is_empty() { return "-".to_string(); }
    let z = F::SIZE == 0;
    evs.iter().map(|e| match e[0] {
        reg::EV_DROP => if z { "dz".to_string() } else { format!("d{}", trunc(F::SIZE, e[1])) },
        reg::EV_CLONE => if z { "cz>z".to_string() } else { format!("c{}>{}", trunc(F::SIZE, e[1]), trunc(F::SIZE, e[2])) },
        reg::EV_ALLOC => format!("a{}:{}", e[1], e[2]),
        reg::EV_REALLOC => format!("ra{}>{}:{}", e[1], e[2], e[3]),
        reg::EV_DEALLOC => format!("da{}:{}", e[1], e[2]),
        reg::EV_MB => format!("mb{}", e[1]),
        reg::EV_ME => format!("me{}", e[1]),
        reg::EV_MR => format!("mr{}", e[1]),
        reg::EV_MD => "md".to_string(),
        reg::EV_BAD => format!("BAD{}:{}:{}", e[1], e[2], e[3]),
        _ => "?".to_string(),
    }).collect::<Vec<_>>().join(",")
}

enum POp {
    New(u8, String, String, Option<usize>),
    Push(usize, Option<usize>, Src),
    TPush(usize, Option<usize>),
    Handle(usize, HK, usize, Sink),
    THandle(usize, HK, usize),
    Clear(usize),
    Get(usize, usize, bool),
    Iter(usize, Vec<EndTok>),
    IterC(usize, Vec<EndTok>, Vec<EndTok>),
    Drain(usize, Rng, bool, Vec<(EndTok, Sink)>, FinTok),
    Splice(usize, Rng, bool, Vec<Src>, i64, Vec<(EndTok, Sink)>, FinTok),
    Clone(usize),
    CloneEmpty(usize, Option<String>),
    Cap(usize, String, usize),
    Release,
    DropVec(usize),
    Info(usize), DcVec(usize, u8), WSwap(usize, usize, u8), TAssign(usize, usize), SwapB(usize, usize, usize),
    TSwap(usize, usize, usize), ESwap(usize, usize, usize, usize), Probe(usize), Views(usize), LazyDc(usize, usize, u8, u8),
    SetLen(usize, usize, bool), RawRt(usize), RawParts(usize),
}

fn parse_op(toks: &[&str]) -> Option<POp> {
    let num = |s: &str| s.parse::<usize>().ok();
    Some(match toks {
        ["new", ty, bk, tr] => POp::New(ty.parse().ok()?, bk.to_string(), tr.to_string(), None),
        ["withcap", ty, bk, tr, n] => POp::New(ty.parse().ok()?, bk.to_string(), tr.to_string(), Some(num(n)?)),
        ["push", v, s] => POp::Push(num(v)?, None, parse_src(s)?),
        ["insert", v, i, s] => POp::Push(num(v)?, Some(num(i)?), parse_src(s)?),
        ["tpush", v] => POp::TPush(num(v)?, None),
        ["tinsert", v, i] => POp::TPush(num(v)?, Some(num(i)?)),
        ["pop", v, k] => POp::Handle(num(v)?, HK::Pop, 0, parse_sink(k)?),
        ["remove", v, i, k] => POp::Handle(num(v)?, HK::Remove, num(i)?, parse_sink(k)?),
        ["swapremove", v, i, k] => POp::Handle(num(v)?, HK::SwapRemove, num(i)?, parse_sink(k)?),
        ["tpop", v] => POp::THandle(num(v)?, HK::Pop, 0),
        ["tremove", v, i] => POp::THandle(num(v)?, HK::Remove, num(i)?),
        ["tswapremove", v, i] => POp::THandle(num(v)?, HK::SwapRemove, num(i)?),
        ["clear", v] => POp::Clear(num(v)?),
        ["get", v, i] => POp::Get(num(v)?, num(i)?, false),
        ["at", v, i] => POp::Get(num(v)?, num(i)?, true),
        ["iter", v, cs] => POp::Iter(num(v)?, parse_ends(cs)?),
        ["iterc", v, pre, post] => POp::IterC(num(v)?, parse_ends(pre)?, parse_ends(post)?),
        ["drain", v, lo, hi, path, eats, fin] =>
            POp::Drain(num(v)?, (parse_bnd(lo)?, parse_bnd(hi)?), *path == "t", parse_eats(eats)?, parse_fin(fin)?),
        ["splice", v, lo, hi, path, repl, claim, eats, fin] =>
            POp::Splice(num(v)?, (parse_bnd(lo)?, parse_bnd(hi)?), *path == "t", parse_srcs(repl)?,
                        claim.parse().ok()?, parse_eats(eats)?, parse_fin(fin)?),
        ["clone", v] => POp::Clone(num(v)?),
        ["cloneempty", v] => POp::CloneEmpty(num(v)?, None),
        ["cloneemptyin", v, bk] => POp::CloneEmpty(num(v)?, Some(bk.to_string())),
        ["reserve", v, n] | ["reserveexact", v, n] | ["shrinkto", v, n] => POp::Cap(num(v)?, toks[0].to_string(), num(n)?),
        ["shrinktofit", v] => POp::Cap(num(v)?, "shrinktofit".to_string(), 0),
        ["info", v] => POp::Info(num(v)?),
        ["dcvec", v, t] => POp::DcVec(num(v)?, t.parse().ok()?),
        ["wswap", v, i, t] => POp::WSwap(num(v)?, num(i)?, t.parse().ok()?),
        ["tassign", v, i] => POp::TAssign(num(v)?, num(i)?),
        ["swapb", v, i, j] => POp::SwapB(num(v)?, num(i)?, num(j)?),
        ["tswap", v, i, j] => POp::TSwap(num(v)?, num(i)?, num(j)?),
        ["eswap", v, i, w, j] => POp::ESwap(num(v)?, num(i)?, num(w)?, num(j)?),
        ["probe", v] => POp::Probe(num(v)?),
        ["lazydc", v, i, dp, ty] => POp::LazyDc(num(v)?, num(i)?, num(dp)? as u8, num(ty)? as u8),
        ["views", v] => POp::Views(num(v)?),
        ["setlen", v, k, p] => POp::SetLen(num(v)?, num(k)?, *p == "t"),
        ["rawrt", v] => POp::RawRt(num(v)?),
        ["rawparts", v] => POp::RawParts(num(v)?),
        ["release"] => POp::Release,
        ["dropvec", v] => POp::DropVec(num(v)?),
        _ => return None,
    })
}

/// run one script op against the real crate (allocator scope is on)
fn exec<F: Family>(env: &mut Env<F>, op: &POp) {
    match op {
        POp::New(ty, bk, tr, cap) => {
            // the slot exists even if construction panics (indices stay aligned with the model)
            reg::noscope(|| env.vecs.push(RefCell::new(None)));
            let b = make_vec::<F>(*ty, bk, tr, *cap);
            *env.vecs.last().unwrap().borrow_mut() = Some(b);
        }
        POp::Push(v, at, src) => match src {
            Src::L { v: v2, i, d } => {
                let src = env.vecs[*v2].borrow();
                let mut dst = env.vecs[*v].borrow_mut();
                src.as_ref().unwrap().lazy_ref_to(*i, *d, dst.as_mut().unwrap().as_mut(), *at);
            }
            src => env.with_vec(*v, |d| match at { None => d.push_src(src), Some(i) => d.insert_src(*i, src) }),
        },
        POp::TPush(v, at) => env.with_vec(*v, |d| match at { None => d.tpush(), Some(i) => d.tinsert(*i) }),
        POp::Handle(v, hk, i, k) => { let e = &*env; e.with_vec(*v, |d| d.handle_op(*hk, *i, k, e)) }
        POp::THandle(v, hk, i) => { let e = &*env; e.with_vec(*v, |d| d.tremove_op(*hk, *i, e)) }
        POp::Clear(v) => env.with_vec(*v, |d| d.clear()),
        POp::Get(v, i, at) => env.with_vec(*v, |d| d.get(*i, *at)),
        POp::Iter(v, cs) => env.with_vec(*v, |d| d.iter(cs)),
        POp::IterC(v, pre, post) => env.with_vec(*v, |d| d.iter_clone(pre, post)),
        POp::Drain(v, r, typed, eats, fin) => { let e = &*env; e.with_vec(*v, |d| d.drain(*r, *typed, eats, *fin, e)) }
        POp::Splice(v, r, typed, repl, claim, eats, fin) => {
            let e = &*env;
            e.with_vec(*v, |d| d.splice(*r, *typed, repl, *claim, eats, *fin, e))
        }
        POp::Clone(v) => {
            reg::noscope(|| env.vecs.push(RefCell::new(None)));
            let b = env.vecs[*v].borrow().as_ref().unwrap().clone_vec();
            *env.vecs.last().unwrap().borrow_mut() = Some(b);
        }
        POp::CloneEmpty(v, bk) => {
            reg::noscope(|| env.vecs.push(RefCell::new(None)));
            let b = env.vecs[*v].borrow().as_ref().unwrap().clone_empty_in(bk.as_deref());
            *env.vecs.last().unwrap().borrow_mut() = Some(b);
        }
        POp::Cap(v, op, n) => env.with_vec(*v, |d| d.capacity_op(op, *n)),
        POp::Release => {
            let held = std::mem::take(&mut *env.held.borrow_mut());
            // drop the values (element destructors); the boxes are harness memory
            let boxes: Vec<Box<dyn std::any::Any>> = reg::noscope(|| held.into_iter().map(|(_, b)| b).collect());
            drop(boxes);
        }
        POp::DropVec(v) => {
            let b = env.vecs[*v].borrow_mut().take();
            drop(b);
        }
        POp::Info(v) => env.with_vec(*v, |d| d.info()),
        POp::DcVec(v, t) => env.with_vec(*v, |d| d.dcvec(*t)),
        POp::WSwap(v, i, t) => env.with_vec(*v, |d| d.wswap(*i, *t)),
        POp::TAssign(v, i) => env.with_vec(*v, |d| d.tassign(*i)),
        POp::SwapB(v, i, j) => env.with_vec(*v, |d| d.swapb(*i, *j)),
        POp::TSwap(v, i, j) => env.with_vec(*v, |d| d.tswap(*i, *j)),
        POp::ESwap(v, i, w, j) => {
            let mut a = env.vecs[*v].borrow_mut();
            let mut b = env.vecs[*w].borrow_mut();
            a.as_mut().unwrap().eswap_with(*i, b.as_mut().unwrap().as_mut(), *j);
        }
        POp::Probe(v) => env.with_vec(*v, |d| d.probe()),
        POp::LazyDc(v, i, dp, ty) => env.with_vec(*v, |d| d.lazy_dc(*i, *dp, *ty, env)),
        POp::Views(v) => env.with_vec(*v, |d| d.views()),
        POp::SetLen(v, k, t) => env.with_vec(*v, |d| d.setlen(*k, *t)),
        POp::RawRt(v) => env.with_vec(*v, |d| d.rawrt()),
        POp::RawParts(v) => env.with_vec(*v, |d| d.rawparts()),
    }
}

fn run_case<F: Family>(name: &str, lines: &[String], w: &mut dyn Write) {
    reg::reset_case();
    reloc::reset_live();
    writeln!(w, "C {}", name).unwrap();
    w.flush().unwrap();
    let mut env: Env<F> = Env { vecs: Vec::new(), held: RefCell::new(Vec::new()) };
    let mut fault: i64 = -1;
    for line in lines {
        let toks: Vec<&str> = line.split_whitespace().collect();
        match toks.as_slice() {
            [] => continue,
            ["#", ..] => continue,
            ["fault", k] => { fault = k.parse().unwrap_or(-1); continue; }
            ["end"] => {
                reloc::flush_quarantine();
                let evs = reg::take_events();
                let bad: Vec<String> = evs.iter().filter(|e| e[0] == reg::EV_BAD)
                    .map(|e| format!("BAD{}:{}:{}", e[1], e[2], e[3])).collect();
                writeln!(w, "Z created={} drops={} live_blocks={} lost={}{}", reg::created(), reg::drops(),
                    reg::live_blocks(), reg::events_lost(),
                    if bad.is_empty() { String::new() } else { format!(" {}", bad.join(",")) }).unwrap();
                continue;
            }
            _ => {}
        }
        OUT.with(|o| o.borrow_mut().clear());
        let _ = reg::take_events();
        if fault > 0 { reg::arm_payload(); }
        reg::set_fault(fault);
        fault = -1;
        let op = match parse_op(&toks) {
            Some(op) => op,
            None => { writeln!(w, "bad-op").unwrap(); continue; }
        };
        reg::scope_set(true);
        let r = catch_unwind(AssertUnwindSafe(|| exec::<F>(&mut env, &op)));
        reg::scope_set(false);
        reg::set_fault(-1);
        reloc::scan_live();
        {
            let storage: Vec<usize> = env.vecs.iter()
                .filter_map(|c| c.try_borrow().ok().and_then(|b| b.as_ref().map(|v| v.storage_ptr()))).collect();
            reg::scan_heap(F::SIZE, &storage);
        }
        let evs = reg::take_events();
        let res = match &r {
            Ok(()) => "ok".to_string(),
            Err(p) => {
                if p.is::<reg::Injected>() { "panic".to_string() }
                else {
                    let msg = p.downcast_ref::<String>().map(|s| s.as_str())
                        .or_else(|| p.downcast_ref::<&str>().copied()).unwrap_or("");
                    if msg.starts_with("harness:") { format!("harness-error:{}", msg.replace(' ', "_")) }
                    else { "panic".to_string() }
                }
            }
        };
        drop(r);
        let outs = OUT.with(|o| o.borrow().clone());
        let out_s = if res != "ok" || outs.is_empty() { "-".to_string() } else { outs.join(",") };
        let mut line = format!("R {}|O {}|", res, out_s);
        for (k, v) in env.vecs.iter().enumerate() {
            if let Some(d) = v.borrow().as_ref() {
                line.push_str(&format!("V{} {} {} {}|", k, d.len(), d.cap(), d.body()));
            }
        }
        let held = env.held.borrow();
        let held_s = if F::SIZE == 0 { format!("z{}", held.len()) }
            else if held.is_empty() { "-".to_string() }
            else { held.iter().map(|(s, _)| s.clone()).collect::<Vec<_>>().join(",") };
        line.push_str(&format!("E {}|H {}", show_events::<F>(&evs), held_s));
        writeln!(w, "{}", line).unwrap();
        w.flush().unwrap();
    }
    // anything the script left behind
    drop(env);
}

fn kv(toks: &[&str], key: &str, default: usize) -> usize {
    for t in toks {
        if let Some(r) = t.strip_prefix(key) {
            if let Some(r) = r.strip_prefix('=') { return r.parse().unwrap_or(default); }
        }
    }
    default
}

fn main() {
    std::panic::set_hook(Box::new(|_| {}));
    let stdin = std::io::stdin();
    let stdout = std::io::stdout();
    let mut w = std::io::BufWriter::new(stdout.lock());
    let mut cur: Option<(String, usize, usize, bool)> = None;
    let mut lines: Vec<String> = Vec::new();
    let mut flush_case = |cur: &Option<(String, usize, usize, bool)>, lines: &mut Vec<String>, w: &mut dyn Write| {
        if let Some((name, size, align, drop)) = cur {
            let (size, align, drop) = (*size, *align, *drop);
            with_family!(size, align, drop, run_case, name, lines, w);
        }
        lines.clear();
    };
    for line in stdin.lock().lines() {
        let line = line.unwrap();
        let toks: Vec<&str> = line.split_whitespace().collect();
        if toks.first() == Some(&"case") {
            flush_case(&cur, &mut lines, &mut w);
            let name = toks.get(1).unwrap_or(&"?").to_string();
            // a property of the case's name, so that a replayed case takes the same path
            dynvec::NTH_MODE.with(|m| m.set(name.bytes().map(|b| b as u32).sum::<u32>() % 2 == 1));
            cur = Some((name, kv(&toks, "size", 8), kv(&toks, "align", 8), kv(&toks, "drop", 1) != 0));
        } else {
            lines.push(line);
        }
    }
    flush_case(&cur, &mut lines, &mut w);
    w.flush().unwrap();
}
