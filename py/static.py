"""Compile-time properties (C15, C16, C19): tables regenerated from /repo/src on every run, kernel-checked
in Lean, and compared with the verdicts of the real compiler on generated probe programs."""
import concurrent.futures as cf
import json, os, re, subprocess, sys, time, hashlib

import runner as R
import props as P

BUILD = R.BUILD
PROBES = os.path.join(BUILD, "probes")

def sh(cmd, cwd=None, timeout=1800):
    return R.sh(cmd, cwd=cwd, timeout=timeout)

# ------------------------------------------------------------------------------------------ rlibs
def build_rlib(features):
    """any_vec built from /repo's working tree; returns (rlib path, None) or (None, output)"""
    tdir = os.path.join(BUILD, "repo-" + features)
    cmd = ["cargo", "build", "--offline", "--quiet", "--lib", "--manifest-path", os.path.join(R.REPO, "Cargo.toml"),
           "--target-dir", tdir]
    if features == "noalloc": cmd.append("--no-default-features")
    rc, out = sh(cmd)
    if rc != 0: return None, out
    return os.path.join(tdir, "debug", "libany_vec.rlib"), None

def rustc_probe(name, src, rlib, crate_type="lib", emit="metadata", extra=None):
    """compile one probe program; returns dict(ok, codes, stderr)"""
    d = os.path.join(PROBES, name[:2]); os.makedirs(d, exist_ok=True)
    path = os.path.join(d, name + ".rs")
    with open(path, "w") as f: f.write(src)
    outp = os.path.join(d, name + (".rmeta" if emit == "metadata" else ".out"))
    cmd = ["rustc", "--edition", "2021", "--crate-type", crate_type, "--crate-name", "probe_" + re.sub(r"\W", "_", name),
           "--emit=" + emit, "-o", outp, "--extern", "any_vec=" + rlib, "-A", "warnings", "--error-format=short", path]
    if extra: cmd += extra
    p = subprocess.run(cmd, stdout=subprocess.PIPE, stderr=subprocess.PIPE, text=True, timeout=300)
    codes = sorted(set(re.findall(r"error\[(E\d+)\]", p.stderr)))
    return {"ok": p.returncode == 0, "codes": codes, "stderr": p.stderr[-1500:], "path": path}

def run_probes(probes, rlib, jobs=16):
    """probes: list of (name, src, kwargs) -> {name: result}"""
    res = {}
    with cf.ThreadPoolExecutor(max_workers=jobs) as ex:
        futs = {ex.submit(rustc_probe, n, s, rlib, **kw): n for (n, s, kw) in probes}
        for f in cf.as_completed(futs): res[futs[f]] = f.result()
    return res

# ------------------------------------------------------------------------------------------ source scanning
def strip_comments(txt):
    txt = re.sub(r"/\*.*?\*/", " ", txt, flags=re.S)
    return "\n".join(l.split("//")[0] for l in txt.splitlines())

def top_items(txt):
    """(attributes, text) of the top-level items of a Rust file (comments stripped)"""
    items = []; depth = 0; cur = []; i = 0; n = len(txt)
    start = 0
    for i, ch in enumerate(txt):
        if ch in "{([": depth += 1
        elif ch in "})]": depth -= 1
        if depth == 0 and (ch == ";" or ch == "}"):
            seg = txt[start:i + 1].strip()
            # an attribute immediately followed by an item stays attached to it; `}` of attrs like #[cfg(..)] do not end items
            if seg and not re.fullmatch(r"(#!?\[[^\]]*\]\s*)+", seg):
                items.append(seg); start = i + 1
    out = []
    for seg in items:
        attrs = re.findall(r"#\[[^\]]*\]", seg)
        body = re.sub(r"#!?\[[^\]]*\]", " ", seg).strip()
        if body: out.append((attrs, body))
    return out

def norm(s): return re.sub(r"\s+", "", s)

def scan_cfg_table(src_root):
    """rows: file, item head, uses_alloc, gated (by its own attribute or because its module is gated)"""
    gated_files = set()
    rows = []
    files = []
    for root, _, fs in os.walk(src_root):
        for f in fs:
            if f.endswith(".rs"): files.append(os.path.join(root, f))
    files.sort()
    parsed = {}
    for p in files:
        txt = strip_comments(open(p).read())
        parsed[p] = top_items(txt)
        for attrs, body in parsed[p]:
            m = re.match(r"(pub(\([a-z]+\))?\s+)?mod\s+(\w+)\s*;", body)
            if m and any(norm(a) == '#[cfg(feature="alloc")]' for a in attrs):
                d = os.path.dirname(p)
                for cand in (os.path.join(d, m.group(3) + ".rs"), os.path.join(d, m.group(3), "mod.rs")):
                    gated_files.add(cand)
    for p in files:
        rel = os.path.relpath(p, src_root)
        for attrs, body in parsed[p]:
            uses = bool(re.search(r"(?<!core::)\balloc::|extern\s+crate\s+alloc|\bheap::|\bHeap\b", body))
            own = any(norm(a) == '#[cfg(feature="alloc")]' for a in attrs)
            neg = any(norm(a) == '#[cfg(not(feature="alloc"))]' for a in attrs)
            head = re.sub(r"\s+", " ", body)[:60]
            rows.append({"file": rel, "head": head, "uses_alloc": uses, "gated": own or (p in gated_files), "not_alloc": neg,
                         "default_alias": bool(re.search(r"\btype\s+Default\b", body))})
    return rows

def lean_str(s): return '"' + s.replace("\\", "\\\\").replace('"', '\\"') + '"'

def write_gen(name, text):
    d = os.path.join(R.LEAN_DIR, "AnyVecModel", "Gen"); os.makedirs(d, exist_ok=True)
    p = os.path.join(d, name + ".lean")
    old = open(p).read() if os.path.exists(p) else None
    if old != text:
        with open(p, "w") as f: f.write(text)
    return p

def evidence(prop, tier, seed, audit, cov_extra, wall, violations, rule, samples, evaluations, distinct):
    cov = {
        "obligations": audit["obligations"], "discharged": audit["discharged"],
        "checker_cmd": "cd /verif/lean && lake build %s && lake env lean <#print axioms of every theorem in Props/%s.lean>" % (audit["module"], prop),
        "trusted_base": P.TRUSTED + ["rustc 1.95 as the oracle for compile-time verdicts (accept / error code) of the generated probe programs",
                                     "the source scanner / probe generators in py/static.py"],
        "theorems": audit["theorems"], "axioms_found": audit["axioms"], "audit_problems": audit["problems"],
        "trait_impl_blocks_compared_with_the_pinned_inventory": audit.get("trait_impl_blocks_checked", 0),
        "evaluations": evaluations, "distinct_nontrivial": distinct, "rule": rule, "samples": samples,
        "explanation": "finite decision tables kernel-checked in Lean (regenerated from /repo/src on this run) + the real compiler's verdict on every generated probe",
    }
    cov.update(cov_extra)
    R.write_evidence(prop, tier if tier in ("quick", "thorough") else "quick", seed, "proof", cov,
                     ["rustc's verdicts are the ground truth for compile-time acceptance"], wall, violations)

def report(prop, fails, known):
    """fails: list of (key, what, replay_text). returns rc"""
    rc = 0; printed = 0
    hits = {}
    fails = sorted(fails, key=lambda f: "no-failing-input-found" in f[1])      # concrete failing rows / programs first
    for key, what, replay in fails:
        k = None
        for kf in known:
            if kf.get("property") == prop and kf.get("status") == "open" and re.search(kf.get("match", {}).get("row_re", "$^"), key):
                k = kf; break
        if k is not None:
            hits.setdefault(k["id"], k); continue
        d = os.path.join(R.VERIF, "replays", prop); os.makedirs(d, exist_ok=True)
        p = os.path.join(d, re.sub(r"\W+", "_", key)[:80] + ".txt")
        with open(p, "w") as f: f.write("# property %s\n# %s\n%s\n" % (prop, what, replay))
        if printed < 8:
            # entries without a concrete failing program / row carry the marker: it closes the VIOLATION line
            nf = " no-failing-input-found" if "no-failing-input-found" in what else ""
            print("VIOLATION property=%s replay=%s%s" % (prop, p, nf)); print("  " + what.replace(" no-failing-input-found", "")[:300])
        printed += 1; rc = 1
    for kid, k in hits.items():
        print("KNOWN-FINDING: property=%s %s [%s]" % (prop, k["what"], kid))
    return rc, printed, sorted(hits)

# ========================================================================================== C19
def run_c19(tier, seed, replay):
    t0 = time.time()
    known = R.load_known()
    fails = []
    # (1) cfg table regenerated from the source, kernel-checked
    rows = scan_cfg_table(os.path.join(R.REPO, "src"))
    feats = open(os.path.join(R.REPO, "Cargo.toml")).read()
    default_has_alloc = bool(re.search(r'default\s*=\s*\[[^\]]*"alloc"', feats))
    lines = ["/- generated by py/static.py from /repo/src on every run (cfg gates and uses of the `alloc` crate) -/",
             "namespace AnyVec.Gen.Cfg", "structure Item where", "  file : String", "  head : String", "  usesAlloc : Bool",
             "  gated : Bool", "  notAlloc : Bool", "  defaultAlias : Bool", "  deriving Repr, DecidableEq", "def table : List Item := ["]
    lines.append(",\n".join("  { file := %s, head := %s, usesAlloc := %s, gated := %s, notAlloc := %s, defaultAlias := %s }" % (
        lean_str(r["file"]), lean_str(r["head"]), str(r["uses_alloc"]).lower(), str(r["gated"]).lower(), str(r["not_alloc"]).lower(),
        str(r["default_alias"]).lower()) for r in rows))
    lines += ["]", "def defaultFeatureHasAlloc : Bool := %s" % str(default_has_alloc).lower(), "end AnyVec.Gen.Cfg", ""]
    write_gen("Cfg", "\n".join(lines))
    audit = R.lean_audit("C19")
    if audit["problems"] or audit["discharged"] != audit["obligations"] or audit["obligations"] == 0:
        bad = [r for r in rows if r["uses_alloc"] and not r["gated"]]
        for r in bad:
            fails.append(("cfg:%s:%s" % (r["file"], r["head"]), "item uses the alloc crate / heap backend without cfg(feature = \"alloc\"): %s: %s" % (r["file"], r["head"]), json.dumps(r)))
        if not bad:
            fails.append(("theorem-audit", "Props/C19.lean no longer checks: %s no-failing-input-found" % "; ".join(audit["problems"])[:300], "\n".join(audit["problems"])))
    # (2) the compiler: build both feature sets, probes
    rl_def, o1 = build_rlib("default"); rl_no, o2 = build_rlib("noalloc")
    nprobe = 0
    if rl_no is None:
        fails.append(("build:noalloc", "the crate does not build with --no-default-features", (o2 or "")[-1500:]))
    if rl_def is None:
        print("default build failed:\n" + (o1 or "")[-2000:]); return 2
    if rl_no is not None:
        heap_use = "use any_vec::mem::Heap;\npub fn f() -> Heap { Heap }\n"
        stack_use = ("use any_vec::{AnyVec, any_value::AnyValueWrapper, mem::{Stack, StackN, Empty}, traits::*};\n"
                     "pub fn f() -> usize { let mut v: AnyVec<dyn Cloneable, Stack<64>> = AnyVec::new::<u32>(); v.push(AnyValueWrapper::new(1u32));\n"
                     " let w = v.clone(); let e: AnyVec<dyn None, Empty> = AnyVec::new::<u8>(); let n: AnyVec<dyn None, StackN<2, 16>> = AnyVec::new::<u64>();\n"
                     " v.len() + w.len() + e.len() + n.capacity() }\n")
        default_alias = "use any_vec::AnyVec;\npub fn f() -> usize { let v: AnyVec = AnyVec::new::<u32>(); v.capacity() }\n"
        nostd = ("#![no_std]\nuse any_vec::{AnyVec, any_value::AnyValueWrapper, mem::Stack, traits::*};\n"
                 "#[panic_handler] fn ph(_: &core::panic::PanicInfo) -> ! { loop {} }\n"
                 "#[no_mangle] pub extern \"C\" fn probe() -> usize { let mut v: AnyVec<dyn None, Stack<64>> = AnyVec::new::<u32>();\n"
                 " v.push(AnyValueWrapper::new(7u32)); let n = v.len(); drop(v); n }\n")
        ps = [("c19_heap_noalloc", heap_use, {}), ("c19_stack_noalloc", stack_use, {}), ("c19_default_alias_noalloc", default_alias, {}),
              ("c19_nostd_noalloc", nostd, {"crate_type": "staticlib", "emit": "link", "extra": ["-C", "panic=abort"]})]
        r_no = run_probes(ps, rl_no)
        r_def = run_probes([("c19_heap_default", heap_use, {}), ("c19_stack_default", stack_use, {}), ("c19_default_alias_default", default_alias, {})], rl_def)
        nprobe = len(r_no) + len(r_def)
        exp = [("c19_heap_noalloc", r_no, False, "mem::Heap must not exist without the alloc feature"),
               ("c19_stack_noalloc", r_no, True, "stack / empty backends must be fully usable without the alloc feature"),
               ("c19_default_alias_noalloc", r_no, True, "AnyVec with the default backend alias must still name a backend without alloc"),
               ("c19_nostd_noalloc", r_no, True, "a no_std program without a global allocator must link against the crate built without alloc"),
               ("c19_heap_default", r_def, True, "mem::Heap must exist with default features"),
               ("c19_stack_default", r_def, True, "stack backends must be usable with default features"),
               ("c19_default_alias_default", r_def, True, "default backend alias with default features")]
        for name, res, want, what in exp:
            r = res[name]
            if r["ok"] != want:
                fails.append(("probe:" + name, "%s: rustc %s it (%s)" % (what, "accepted" if r["ok"] else "rejected", ",".join(r["codes"])),
                              open(r["path"]).read() + "\n/* rustc: " + r["stderr"] + " */"))
    # (3) behaviour: the same stack-only scripts on both builds and on the model
    import gen as G, random
    rng = random.Random(seed * 1000003 + 19)
    cases = []
    stack_kinds = [("stack:48", "clone"), ("stack:512", "clone"), ("stackn:3:512", "clone")]
    # over-aligned element types included: the stack buffers' own alignment is part of what must not depend on the feature set
    lays = [G.CORE_LAYOUT, (3, 1, 1), (0, 1, 0), (16, 16, 1), (64, 64, 1), (160, 32, 1)] if tier == "quick" else G.LAYOUTS
    def stack_setup(c, bk, traits, L, rng_):
        v0 = c.new(0, bk, traits); v1 = c.new(0, "stack:512", "clone"); v2 = c.new(1, "stack:512", "clone")
        G.fill(c, v0, L, rng_); G.fill(c, v1, 2, rng_); c.add("push %d w1" % v2)
    saved = G.setup3; G.setup3 = stack_setup
    try:
        for layout in lays:
            ks = [k for k in stack_kinds if (G.kind_cap(k[0], layout[0]) or 0) >= 4]
            lens_e, lens_r = [0, 2, 3], [0, 3]
            if not ks:
                ks = [k for k in stack_kinds if (G.kind_cap(k[0], layout[0]) or 0) >= 3]
                lens_e, lens_r = [0, 2], [0, 2]
            if not ks: continue
            cases += list(G.gen_elementwise(rng, [layout], ks[:1], lens_e, tag="na%d_%d_%d_" % layout))
            cases += list(G.gen_ranges(rng, [layout], ks[:1], lens_r, "nar%d_%d_%d_" % layout, strings_cap=4))
            for i in range(6 if tier == "quick" else 40):
                cases.append(G.rand_history(rng, "nah%d_%d_%d_%d" % (layout + (i,)), layout, ks, 150, 20, ranges=True, clones=True))
        # the capacity boundary of every stack backend for every layout, also where not even one element fits: the stated
        # capacity, pushes up to it, one push beyond it
        for layout in lays:
            for bk, tr in stack_kinds:
                cap = G.kind_cap(bk, layout[0])
                if cap is None or cap < 0: continue
                c = G.Case("nab%d_%d_%d_%s" % (layout + (bk.replace(":", "_"),)), layout)
                c.new(0, bk, tr); c.add("info 0")
                for _ in range(min(cap, 3) + 1): c.add("push 0 w0")
                c.add("probe 0"); c.finish([0]); cases.append(c)
    finally:
        G.setup3 = saved
    for c in cases:
        # the storage pointer's alignment remainder is part of the compared behaviour
        k = next((i for i, l in enumerate(c.lines) if l.startswith("dropvec") or l == "release"), len(c.lines))
        c.lines.insert(k, "views 0")
    stats = {"cases": 0, "steps": 0, "validated": 0}
    h_def, out = R.build_harness("dev"); h_no, out2 = R.build_harness("dev", features="noalloc")
    if h_no is None:
        fails.append(("build:harness-noalloc", "the stack-only harness does not build against the crate without the alloc feature", (out2 or "")[-1500:]))
    elif h_def is not None:
        proj = {"want_cap": True}
        f1, s1 = R.run_cases(h_def, cases, proj, {"vec-semantics", "capacity", "heap-use"} | P.OWN)
        f2, s2 = R.run_cases(h_no, cases, proj, {"vec-semantics", "capacity", "heap-use"} | P.OWN)
        stats = {"cases": s1["cases"], "steps": s1["steps"] + s2["steps"], "validated": min(s1["validated"], s2["validated"])}
        for tag, fs in (("default", f1), ("no-default-features", f2)):
            seen = set()
            for f in fs:
                if f.key() in seen: continue
                seen.add(f.key())
                fails.append(("behaviour:%s:%s:%s" % (tag, f.kind, f.case.name), "%s build: %s" % (tag, f.msg[:300]), f.case.text()))
    rc, nviol, hits = report("C19", fails, known)
    evidence("C19", tier, seed, audit, {"cfg_rows": len(rows), "rows_using_alloc": sum(1 for r in rows if r["uses_alloc"]),
             "probe_programs": nprobe, "traces_validated_against_impl": stats["validated"], "known_findings_hit": hits},
             time.time() - t0, nviol,
             "cfg/alloc table of every top-level item of /repo/src (regenerated, decided in Lean); compile probes on the crate built with and "
             "without default features (Heap unavailable, stack API complete, no_std staticlib without allocator links); the C01/C02/C11 "
             "stack-only scripts run on both builds and on the model",
             [r for r in rows if r["uses_alloc"]][:6] + [c.text().split("\n")[:8] for c in cases[:1]],
             stats["steps"] + nprobe + len(rows), len(rows) + nprobe + stats["cases"])
    print("C19 %s: %d cfg rows, %d probes, %d cases on both builds, %d theorems (%d discharged), %.1fs" % (
        tier, len(rows), nprobe, stats["cases"], audit["obligations"], audit["discharged"], time.time() - t0))
    return rc

def run(prop, tier, seed, replay):
    if prop == "C19": return run_c19(tier, seed, replay)
    if prop == "C15":
        import static15; return static15.run(tier, seed, replay)
    if prop == "C16":
        import static16; return static16.run(tier, seed, replay)
    print("unknown static property", prop); return 2
