"""Direct oracles on the implementation's observation stream, independent of the Lean model:
a shadow `Vec` (Python lists) for the exact semantics of fault-free operations, and an
identity registry for ownership (one owner, destroyed once, nothing resurrected)."""
from obs import body_ids, is_drop_ev, is_clone_ev, is_bad_ev

USIZE_MAX = 2**64 - 1

ISIZE_MAX = 2**63 - 1

def resize_outcome(bk, size, align, cap, new):
    """'ok' | 'panic' for Mem::resize(new) on the two resizable backends (allocation failure is not modelled:
    the generators never ask for a valid layout that cannot be allocated)"""
    if bk == "heap":
        if cap == new or size == 0 or new == 0: return "ok"
        b = size * new
        if b > USIZE_MAX or b + (align - 1) > ISIZE_MAX: return "panic"
        return "ok"
    b = size * new
    if b > USIZE_MAX or b > 2**30: return "panic"
    return "ok"

def reserve_outcome(bk, size, align, ln, cap, n, exact):
    new_len = ln + n
    if new_len > USIZE_MAX: return "panic"
    if cap >= new_len: return "ok"
    if exact: new = new_len
    elif bk == "heap": new = max(min(2 * cap, USIZE_MAX), new_len)
    else: new = max(cap + cap // 2, new_len)
    return resize_outcome(bk, size, align, cap, new)

class Fresh:
    """an identity created by this step; bound to the observed token on first use"""
    __slots__ = ("tok",)
    def __init__(self): self.tok = None
    def __repr__(self): return "fresh(%s)" % self.tok

class SV:
    __slots__ = ("ty", "bk", "traits", "vis", "cap", "alive")
    def __init__(self, ty, bk, traits):
        self.ty = ty; self.bk = bk; self.traits = traits; self.vis = []; self.cap = 0; self.alive = True
    def fixed(self): return not (self.bk == "heap" or self.bk == "reloc")

class Unknown(Exception):
    """the shadow does not predict this situation exactly (only the invariants apply)"""

class MustPanic(Unknown):
    """the shadow does not predict the effects, but it knows that the call has to panic (by the crate's contract)"""

class Exp:
    def __init__(self):
        self.res = "ok"; self.out = []; self.vis = {}; self.drops = []; self.clones = []
        self.held_add = []; self.new_vec = None; self.dead = []; self.leak = []
        self.dead_new = False; self.held_clear = False

def parse_bound(tok):
    if tok == "u": return ("u", 0)
    return (tok[0], int(tok[1:]))

def math_range(ln, lo, hi):
    """mathematical reading of the bounds over the naturals (no wrap); None if invalid"""
    k, a = parse_bound(lo); s = 0 if k == "u" else (a if k == "i" else a + 1)
    k, b = parse_bound(hi); e = ln if k == "u" else (b + 1 if k == "i" else b)
    if s > USIZE_MAX or e > USIZE_MAX: return None
    if s <= e <= ln: return (s, e)
    return None

def parse_sink(tok):
    if tok in ("drop", "forget", "info"): return (tok,)
    if tok.startswith("swapr") and tok[5:].isdigit(): return ("swap", int(tok[5:]))      # erased right operand: same meaning
    for p in ("dc", "push", "swap"):
        if tok.startswith(p) and tok[len(p):].isdigit(): return (p, int(tok[len(p):]))
    for p in ("ins", "lazy"):
        if tok.startswith(p):
            a, b = tok[len(p):].split("."); return (p, int(a), int(b))
    raise ValueError(tok)

def parse_src(tok):
    if tok[0] in "wr": return (tok[0], int(tok[1:]))
    if tok[0] in "sy": return ("r", int(tok[1:]))       # unchecked raw pointers: a raw value of the vector's own type
    v, i, d = tok[1:].split("."); return ("l", int(v), int(i), int(d))

class Shadow:
    def __init__(self, size, align, drop):
        self.size = size; self.align = align; self.drop = drop
        self.zst = size == 0
        self.vecs = {}; self.nvec = 0
        self.held = []
        self.seen = set(); self.dropped = {}; self.gone = set()
        self.leaky = False        # leaks are permitted from now on (forget / injected fault / lying len)
        self.fails = []
        self.stats = {"exact": 0, "invariant_only": 0, "nontrivial": 0}
        self.blocks = []          # live heap blocks (size, align) attributed to the library
        self.push_run = {}        # vector -> (pushes, capacity changes) while it only grows by push
        self.any_panic_allocs = False

    # ------------------------------------------------------------------ helpers
    def fail(self, kind, msg): self.fails.append((kind, msg))

    def unify(self, pat, toks, what):
        """pattern list (tokens / Fresh) against observed tokens"""
        if toks is None: return True   # hashed or ZST body: length is checked separately
        if len(pat) != len(toks):
            self.fail("vec-semantics", "%s: expected %d items %r, observed %r" % (what, len(pat), pat, toks)); return False
        ok = True
        for p, t in zip(pat, toks):
            t0 = t.rstrip("!")
            if isinstance(p, Fresh):
                if p.tok is None:
                    if not self.zst and t0 in self.seen:
                        self.fail("vec-semantics", "%s: expected a fresh element, observed the known id %s" % (what, t0)); ok = False
                    p.tok = t0
                elif p.tok != t0:
                    self.fail("vec-semantics", "%s: expected %s, observed %s" % (what, p.tok, t0)); ok = False
            elif p != t0:
                self.fail("vec-semantics", "%s: expected %r, observed %r" % (what, pat, toks)); ok = False; break
        return ok

    def push_into(self, ex, w, val, ty, at=None, owned_drop=True, on_reject=None):
        """value `val` of type `ty` offered to vector w (push or insert at `at`).
        returns True if accepted. on_reject: tokens destroyed when the library rejects the value."""
        d = self.vecs[w]
        vis = ex.vis.get(w, list(d.vis))
        if ty != d.ty or (at is not None and at > len(vis)) or (d.fixed() and len(vis) >= d.cap):
            ex.res = "panic"
            if on_reject: ex.drops += on_reject
            return False
        if at is None: vis = vis + [val]
        else: vis = vis[:at] + [val] + vis[at:]
        ex.vis[w] = vis
        return True

    # ------------------------------------------------------------------ expected outcome of one op
    def expect(self, t):
        ex = Exp()
        op = t[0]
        V = self.vecs
        if op in ("new", "withcap"):
            ex.new_vec = SV(int(t[1]), t[2], t[3])
            if op == "withcap" and resize_outcome(t[2], self.size, self.align, 0, int(t[4])) == "panic":
                ex.res = "panic"; ex.new_vec = None; ex.dead_new = True
            if t[2].startswith("stackn:"):
                _, n, b = t[2].split(":")
                if int(n) * self.size > int(b): ex.res = "panic"; ex.new_vec = None; ex.dead_new = True
            return ex
        if op in ("push", "insert", "tpush", "tinsert"):
            v = int(t[1]); d = V[v]
            at = int(t[2]) if op in ("insert", "tinsert") else None
            if op in ("tpush", "tinsert"):
                f = Fresh(); self.push_into(ex, v, f, d.ty, at, on_reject=[f]); return ex
            s = parse_src(t[-1])
            if s[0] == "w":
                f = Fresh(); self.push_into(ex, v, f, s[1], at, on_reject=[f])
            elif s[0] == "r":
                f = Fresh(); self.push_into(ex, v, f, s[1], at, on_reject=[f])   # the caller destroys it
            else:
                _, v2, i, depth = s
                src = V[v2]
                if i >= len(src.vis): ex.res = "panic"; return ex
                f = Fresh()
                if self.push_into(ex, v, f, src.ty, at):
                    ex.clones.append((src.vis[i], f))
            return ex
        if op in ("pop", "remove", "swapremove", "tpop", "tremove", "tswapremove"):
            v = int(t[1]); d = V[v]; vis = list(d.vis)
            typed = op[0] == "t"
            base = op[1:] if typed else op
            if base == "pop":
                if not vis: ex.out = ["N"]; return ex
                x = vis[-1]; rest = vis[:-1]
            else:
                i = int(t[2])
                if i >= len(vis): ex.res = "panic"; return ex
                x = vis[i]
                if base == "remove": rest = vis[:i] + vis[i+1:]
                else:
                    rest = list(vis); rest[i] = rest[-1]; rest.pop()
            ex.vis[v] = rest
            sink = ("dc", d.ty) if typed else parse_sink(t[-1])
            self.sink_value(ex, v, x, d.ty, sink, handle=True)
            return ex
        if op == "clear":
            v = int(t[1]); ex.vis[v] = []; ex.drops += V[v].vis; return ex
        if op == "lazydc":
            v = int(t[1]); i = int(t[2]); ty = int(t[4]); src = V[v]
            if i >= len(src.vis): ex.res = "panic"; return ex
            if ty != src.ty: ex.out = ["N"]; return ex
            f = Fresh(); ex.clones.append((src.vis[i], f)); ex.out = [f]; ex.held_add.append(f)
            return ex
        if op in ("get", "at"):
            v = int(t[1]); i = int(t[2]); vis = V[v].vis
            if i < len(vis): ex.out = [vis[i]]
            elif op == "at": ex.res = "panic"
            else: ex.out = ["N"]
            return ex
        if op == "iter":
            v = int(t[1]); vis = V[v].vis; a, b = 0, len(vis)
            ex.out = [str(b)]
            for c in ("" if t[2] == "-" else t[2]):
                if a == b: ex.out.append("N:0")
                elif c == "F": ex.out.append("%s:%d" % (vis[a], b - a - 1)); a += 1
                else: b -= 1; ex.out.append("%s:%d" % (vis[b], b - a))
            return ex
        if op == "iterc":
            v = int(t[1]); vis = V[v].vis; a, b = 0, len(vis)
            ex.out = [str(b)]
            for pi, part in enumerate((t[2], t[3])):
                if pi == 1: ex.out.append("C:%d" % (b - a))
                for c in ("" if part == "-" else part):
                    if a == b: ex.out.append("N:0")
                    elif c == "F": ex.out.append("%s:%d" % (vis[a], b - a - 1)); a += 1
                    else: b -= 1; ex.out.append("%s:%d" % (vis[b], b - a))
            return ex
        if op in ("drain", "splice"):
            return self.expect_range(ex, t)
        if op == "clone":
            v = int(t[1]); d = V[v]
            nv = SV(d.ty, d.bk, d.traits)
            if d.fixed():
                cap = d.cap
                if len(d.vis) > cap: ex.res = "panic"; return ex
            fr = [Fresh() for _ in d.vis]
            ex.clones += list(zip(d.vis, fr))
            nv.vis = fr; ex.new_vec = nv
            return ex
        if op in ("cloneempty", "cloneemptyin"):
            v = int(t[1]); d = V[v]
            bk = d.bk if op == "cloneempty" else t[2]
            ex.new_vec = SV(d.ty, bk, d.traits)
            if bk.startswith("stackn:"):
                _, n, b = bk.split(":")
                if int(n) * self.size > int(b): ex.res = "panic"; ex.new_vec = None; ex.dead_new = True
            return ex
        if op in ("reserve", "reserveexact", "shrinktofit", "shrinkto"):
            v = int(t[1]); d = V[v]
            if op in ("reserve", "reserveexact"):
                ex.res = reserve_outcome(d.bk, self.size, self.align, len(d.vis), d.cap, int(t[2]), op == "reserveexact")
            return ex
        if op == "release":
            ex.drops += list(self.held); ex.held_clear = True; return ex
        if op == "info":
            d = V[int(t[1])]
            ex.out = ["t%d" % d.ty, "s%d" % self.size, "a%d" % self.align, "l%d" % len(d.vis), None,
                      "e%d" % (1 if not d.vis else 0), "d%d" % (1 if self.drop else 0)]
            return ex
        if op == "dcvec":
            d = V[int(t[1])]
            ex.out = ["rS", "mS"] if int(t[2]) == d.ty else ["rN", "mN"]; return ex
        if op == "wswap":
            v = int(t[1]); i = int(t[2]); d = V[v]
            if i >= len(d.vis): ex.res = "panic"; return ex
            f = Fresh()
            if int(t[3]) != d.ty: ex.res = "panic"; ex.drops.append(f); return ex
            vis = list(d.vis); old = vis[i]; vis[i] = f; ex.vis[v] = vis; ex.out = [old]; ex.drops.append(old); return ex
        if op == "tassign":
            v = int(t[1]); i = int(t[2]); d = V[v]; f = Fresh()
            if i >= len(d.vis): ex.res = "panic"; ex.drops.append(f); return ex
            vis = list(d.vis); old = vis[i]; vis[i] = f; ex.vis[v] = vis; ex.drops.append(old); return ex
        if op in ("swapb", "tswap"):
            v = int(t[1]); i = int(t[2]); j = int(t[3]); d = V[v]
            if i >= len(d.vis) or j >= len(d.vis):
                if op == "tswap": ex.res = "panic"; return ex
                raise Unknown("swapb out of range")
            vis = list(d.vis); vis[i], vis[j] = vis[j], vis[i]; ex.vis[v] = vis; return ex
        if op == "eswap":
            v = int(t[1]); i = int(t[2]); w = int(t[3]); j = int(t[4]); a = V[v]; b = V[w]
            if i >= len(a.vis) or j >= len(b.vis) or a.ty != b.ty: ex.res = "panic"; return ex
            va = list(a.vis); vb = list(b.vis); va[i], vb[j] = vb[j], va[i]; ex.vis[v] = va; ex.vis[w] = vb; return ex
        if op == "probe":
            d = V[int(t[1])]
            s_ = ("z%d" % len(d.vis)) if self.zst else (".".join(d.vis) if d.vis else "-")
            ex.out = [s_, s_, s_]; return ex
        if op == "views":
            d = V[int(t[1])]; n = len(d.vis); cap = d.cap
            ex.out = ["b%d" % (n * self.size), "s%d" % ((cap - n) * self.size), "o%d" % (n * self.size),
                      "sc%d" % (cap - n), "so%d" % (n * self.size), "al0", "ts1", "tl%d" % n]
            return ex
        if op == "setlen":
            v = int(t[1]); k = int(t[2]); d = V[v]
            if len(d.vis) + k > d.cap: raise Unknown("set_len beyond capacity")
            ex.vis[v] = list(d.vis) + [Fresh() for _ in range(k)]; return ex
        if op == "rawrt":
            return ex
        if op == "rawparts":
            d = V[int(t[1])]
            f = ["l%d" % len(d.vis), "c%d" % d.cap, "s%d" % self.size, "a%d" % self.align, "t%d" % d.ty, "d%d" % (1 if self.drop else 0)]
            ex.out = f + f; return ex
        if op == "dropvec":
            v = int(t[1])
            if v not in V or not V[v].alive: return ex
            ex.drops += V[v].vis; ex.dead.append(v); return ex
        raise Unknown(op)

    def sink_value(self, ex, v, x, ty, sink, handle):
        """value x (element of vector v, already out of v's visible part) goes to a sink"""
        k = sink[0]
        if k == "drop": ex.drops.append(x)
        elif k == "forget": raise Unknown("forgotten handle")
        elif k == "dc":
            if sink[1] == ty: ex.out.append(x); ex.held_add.append(x)
            else: ex.out.append("N"); ex.drops.append(x)
        elif k == "push":
            self.push_into(ex, sink[1], x, ty, None, on_reject=[x])
        elif k == "ins":
            self.push_into(ex, sink[1], x, ty, sink[2], on_reject=[x])
        elif k == "lazy":
            w, n = sink[1], sink[2]
            for _ in range(n):
                f = Fresh()
                if self.push_into(ex, w, f, ty, None): ex.clones.append((x, f))
                else: break
            ex.drops.append(x)
        elif k == "swap":
            f = Fresh()
            if sink[1] == ty: ex.out.append(x); ex.drops += [x, f]
            else: ex.res = "panic"; ex.drops += [f, x]
        elif k == "info":
            if not handle: ex.out.append(x)
            ex.out += ["t%d" % ty, "s%d" % self.size]; ex.drops.append(x)
        else: raise Unknown(k)

    def expect_range(self, ex, t):
        V = self.vecs
        op = t[0]; v = int(t[1]); d = V[v]; vis = list(d.vis)
        typed = t[4] == "t"
        if op == "drain": eats_tok, fin = t[5], t[6]; repl = []; claim = 0
        else:
            repl = [] if t[5] == "-" else [parse_src(x) for x in t[5].split(",")]
            claim = int(t[6]); eats_tok, fin = t[7], t[8]
        eats = [] if eats_tok == "-" else [(e.split(":")[0], parse_sink(e.split(":")[1])) for e in eats_tok.split(",")]
        # replacement values are created before the call
        rvals = []
        for s in repl:
            if s[0] in "wr": rvals.append((Fresh(), s[1], s[0]))
            else:
                src = V[s[1]]
                if s[2] >= len(src.vis): raise Unknown("lazy replacement out of range")
                rvals.append((Fresh(), src.ty, "l", src.vis[s[2]]))
        r = math_range(len(vis), t[2], t[3])
        if r is None:
            ex.res = "panic"
            ex.drops += [f for (f, _, k, *_) in rvals if k in "wr"]
            return ex
        if claim != 0 or fin == "forget": raise Unknown("lying len / forgotten iterator")
        s, e = r
        a, b = s, e
        ex.out = [str(e - s)]
        for end, sink in eats:
            if a == b: ex.out.append("N:0"); continue
            if end == "F": x = vis[a]; a += 1
            else: b -= 1; x = vis[b]
            if sink[0] == "forget": raise Unknown("forgotten item")
            sub = Exp(); sub.vis = ex.vis
            if typed and sink[0] == "dc": sub.out.append(x); sub.held_add.append(x)
            else: self.sink_value(sub, v, x, d.ty, sink, handle=False)
            if sub.res != "ok": raise Unknown("sink panicked inside a range iterator")
            tok = "N" if (sub.out and sub.out[0] == "N") else x
            if sink[0] == "info": tok = "%s/t%d/s%d" % (x, d.ty, self.size)
            ex.out.append("%s:%d" % (tok, b - a))
            ex.drops += sub.drops; ex.clones += sub.clones; ex.held_add += sub.held_add; ex.leak += sub.leak
        ex.drops += vis[a:b]
        newvis = vis[:s]
        ok_types = all(ty == d.ty for (_, ty, *_) in rvals)
        final_len = len(vis) - (e - s) + len(rvals)
        if d.fixed() and final_len > d.cap: raise Unknown("splice beyond a fixed capacity")
        if not ok_types: raise MustPanic("a replacement item of another type than the vector's elements reaches the splice")
        for rv in rvals:
            newvis.append(rv[0])
            if rv[2] == "l": ex.clones.append((rv[3], rv[0]))
        ex.vis[v] = newvis + vis[e:]
        return ex

    # ------------------------------------------------------------------ one step
    def step(self, toks, fault, o):
        """toks: script tokens of the op; fault: int or None; o: parsed observation of the implementation"""
        nf0 = len(self.fails)
        exact = False
        ex = None
        try:
            ex = self.expect(toks)
        except MustPanic as e:
            ex = None
            if fault is None and o.res == "ok":
                self.fail("vec-semantics", "%s: expected result panic (%s), observed ok" % (" ".join(toks), e))
        except Unknown:
            ex = None
        except (KeyError, IndexError, ValueError) as e:
            self.fail("oracle-error", "shadow could not interpret %r: %r" % (toks, e)); ex = None
        forgetting = any(("forget" in x) for x in toks[1:])
        if ex is not None:
            if fault is not None and o.res == "panic" and ex.res == "ok":
                ex = None; self.leaky = True      # the injected fault fired
            elif ex.leak:
                self.leaky = True
        if forgetting: self.leaky = True
        if ex is None: self.leaky = True
        if ex is not None:
            exact = True
            self.check_exact(toks, ex, o)
        elif forgetting and o.res == "ok" and fault is None:
            self.forget_oracle(toks, o)
        prev_caps = {k: d.cap for k, d in self.vecs.items() if d.alive}
        prev_lens = {k: len(d.vis) for k, d in self.vecs.items() if d.alive}
        had_heap = any(d.alive and d.bk == "heap" for d in self.vecs.values())
        self.invariants(toks, o, ex)
        self.capacity_oracle(toks, o, prev_caps, prev_lens)
        self.alloc_oracle(toks, o, had_heap)
        self.stats["exact" if exact else "invariant_only"] += 1
        return self.fails[nf0:]

    def check_exact(self, toks, ex, o):
        what = " ".join(toks)
        if o.res != ex.res:
            self.fail("vec-semantics", "%s: expected result %s, observed %s" % (what, ex.res, o.res)); return
        if ex.res == "ok":
            pat = []
            for x in ex.out:
                pat.append(x)
            # out tokens may embed ids ("id:rem"); compare textually after binding
            obs_out = [x.rstrip("!") for x in o.out]
            if not self.zst and len(obs_out) == len(ex.out):
                # a value that only reaches the caller (a downcast lazy clone) is bound through the output
                for x, t_ in zip(ex.out, obs_out):
                    if isinstance(x, Fresh) and x.tok is None:
                        if t_ in self.seen:
                            self.fail("vec-semantics", "%s: expected a fresh element, observed the known id %s" % (what, t_))
                        x.tok = t_
            exp_out = [x.tok if isinstance(x, Fresh) else x for x in ex.out]
            if not self.zst and (len(exp_out) != len(obs_out) or any(e is not None and e != o_ for e, o_ in zip(exp_out, obs_out))):
                self.fail("vec-semantics", "%s: expected output %r, observed %r" % (what, exp_out, obs_out))
            if self.zst and len(exp_out) != len(obs_out):
                self.fail("vec-semantics", "%s: expected %d outputs, observed %r" % (what, len(exp_out), obs_out))
        # vectors
        newk = None
        if ex.new_vec is not None or getattr(ex, "dead_new", False):
            newk = self.nvec
        for k, d in self.vecs.items():
            if not d.alive: continue
            if k in ex.dead:
                if k in o.vecs: self.fail("vec-semantics", "%s: vector %d still listed after its drop" % (what, k))
                continue
            if k not in o.vecs:
                self.fail("vec-semantics", "%s: vector %d disappeared" % (what, k)); continue
            ln, cap, body = o.vecs[k]
            pat = ex.vis.get(k, d.vis)
            if ln != len(pat):
                self.fail("vec-semantics", "%s: vector %d expected len %d, observed %d" % (what, k, len(pat), ln))
            else:
                self.unify(pat, body_ids(body), "%s: vector %d" % (what, k))
        if ex.new_vec is not None and ex.res == "ok":
            if newk not in o.vecs: self.fail("vec-semantics", "%s: new vector %d not listed" % (what, newk))
            else:
                ln, cap, body = o.vecs[newk]
                if ln != len(ex.new_vec.vis): self.fail("vec-semantics", "%s: new vector len %d, expected %d" % (what, ln, len(ex.new_vec.vis)))
                else: self.unify(ex.new_vec.vis, body_ids(body), "%s: new vector" % what)
        # destructor multiset, clone pairs
        if self.drop:
            obs_d = sorted(e[1:] for e in o.ev if is_drop_ev(e))
            exp_d = sorted((x.tok if isinstance(x, Fresh) else x) or "?" for x in ex.drops)
            if self.zst:
                if len(obs_d) != len(exp_d): self.fail("drop-accounting", "%s: expected %d destructor runs, observed %d" % (what, len(exp_d), len(obs_d)))
            else:
                # a rejected fresh value is only visible through its destructor: bind by elimination
                unbound = [x for x in ex.drops if isinstance(x, Fresh) and x.tok is None]
                if unbound:
                    known = sorted(x.tok if isinstance(x, Fresh) else x for x in ex.drops if not (isinstance(x, Fresh) and x.tok is None))
                    rest = list(obs_d)
                    for kx in known:
                        if kx in rest: rest.remove(kx)
                    if len(rest) == len(unbound) and all(r not in self.seen for r in rest):
                        for u, r in zip(unbound, sorted(rest)): u.tok = r
                    exp_d = sorted((x.tok if isinstance(x, Fresh) else x) or "?" for x in ex.drops)
                if obs_d != exp_d:
                    self.fail("drop-accounting", "%s: expected destructor runs %r, observed %r" % (what, exp_d, obs_d))
        obs_c = [e[1:].split(">") for e in o.ev if is_clone_ev(e)]
        if ex.res == "ok":
            exp_c = [[s.tok if isinstance(s, Fresh) else s, n.tok if isinstance(n, Fresh) else n] for s, n in ex.clones]
            if self.zst:
                if len(obs_c) != len(exp_c): self.fail("clone-accounting", "%s: expected %d clones, observed %d" % (what, len(exp_c), len(obs_c)))
            elif sorted(obs_c) != sorted(exp_c):
                self.fail("clone-accounting", "%s: expected clones %r, observed %r" % (what, exp_c, obs_c))
        # held values
        if ex.res == "ok":
            exp_h = ([] if getattr(ex, "held_clear", False) else list(self.held)) + [x.tok if isinstance(x, Fresh) else x for x in ex.held_add]
            if self.zst:
                if o.held != ["z%d" % len(exp_h)]: self.fail("vec-semantics", "%s: expected %d held values, observed %r" % (what, len(exp_h), o.held))
            elif [h.rstrip("!") for h in o.held] != exp_h:
                self.fail("vec-semantics", "%s: expected held %r, observed %r" % (what, exp_h, o.held))

    def invariants(self, toks, o, ex):
        what = " ".join(toks)
        for e in o.ev:
            if is_bad_ev(e):
                code = e[3:].split(":")[0]
                if code.isdigit() and 40 <= int(code) <= 49:
                    self.fail("vec-semantics", "%s: two ways of reaching the same element disagree (%s: 40 erased get/at/get_unchecked, "
                              "41 typed get/at/get_unchecked(_mut), 42 get_mut/at_mut/iter_mut, 43 borrowed iteration/len/size_hint, "
                              "44 unchecked downcasts, 45 len/is_empty/capacity, 46 element type id/size/clone, 47 Debug, "
                              "48 the size / type id / byte view a value offered to the vector reports about itself, 49 element_drop)" % (what, e))
                else: self.fail("memory", "%s: instrumentation reported %s" % (what, e))
        if o.res.startswith("harness-error"):
            self.fail("oracle-error", "%s: %s" % (what, o.res))
        # destructor runs: at most once per element
        if self.drop and not self.zst:
            for e in o.ev:
                if is_drop_ev(e):
                    i = e[1:]
                    self.dropped[i] = self.dropped.get(i, 0) + 1
                    if self.dropped[i] > 1: self.fail("double-drop", "%s: element %s destroyed again" % (what, i))
                    self.seen.add(i)
        for e in o.ev:
            if is_clone_ev(e) and not self.zst:
                s, n = e[1:].split(">")
                if n in self.seen: self.fail("identity", "%s: clone produced the already-known id %s" % (what, n))
        # current owners
        owners = {}
        torn = False
        nowvis = set()
        for k, (ln, cap, body) in o.vecs.items():
            if ln > cap: self.fail("capacity", "%s: vector %d len %d > capacity %d" % (what, k, ln, cap))
            ids = body_ids(body)
            if ids is None: continue
            if len(ids) != ln: self.fail("oracle-error", "%s: vector %d body/len mismatch" % (what, k))
            for pos, i in enumerate(ids):
                if i.endswith("!"): torn = True; i = i.rstrip("!")
                if i == "?": self.fail("memory", "%s: vector %d shows an uninitialised slot" % (what, k)); continue
                if i in owners: self.fail("duplicate-visible", "%s: element %s visible at %s and at V%d[%d]" % (what, i, owners[i], k, pos))
                owners[i] = "V%d[%d]" % (k, pos)
                nowvis.add(i)
        if not self.zst:
            for h in o.held:
                h = h.rstrip("!")
                if h in owners: self.fail("duplicate-visible", "%s: element %s is held by the caller and also at %s" % (what, h, owners[h]))
                owners[h] = "held"
        if torn: self.fail("memory", "%s: torn element bytes (canary mismatch)" % what)
        if self.drop and not self.zst:
            for i, where in owners.items():
                if self.dropped.get(i, 0) > 0:
                    self.fail("drop-while-visible", "%s: element %s was destroyed but is still reachable at %s" % (what, i, where))
        if not self.zst:
            for i in owners:
                if i in self.gone:
                    self.fail("resurrected", "%s: element %s had left every vector and is visible again at %s" % (what, i, owners[i]))
        # re-sync the shadow from the observation
        prev_owned = set()
        for d in self.vecs.values():
            if d.alive: prev_owned.update(x for x in d.vis if isinstance(x, str))
        prev_owned.update(self.held)
        if toks[0] in ("new", "withcap", "clone", "cloneempty", "cloneemptyin"):
            k = self.nvec; self.nvec += 1
            if toks[0] in ("new", "withcap"): nv = SV(int(toks[1]), toks[2], toks[3])
            else:
                src = self.vecs[int(toks[1])]
                nv = SV(src.ty, toks[2] if toks[0] == "cloneemptyin" else src.bk, src.traits)
            nv.alive = k in o.vecs
            self.vecs[k] = nv
        if toks[0] == "dropvec":
            self.vecs[int(toks[1])].alive = False
        for k, d in self.vecs.items():
            if not d.alive: continue
            if k not in o.vecs: continue
            ln, cap, body = o.vecs[k]
            ids = body_ids(body)
            d.cap = cap
            if ids is None: d.vis = ["z"] * ln if self.zst else (ex.vis.get(k, d.vis) if ex is not None else d.vis)
            else: d.vis = [i.rstrip("!") for i in ids]
            if ids is None and not self.zst:
                d.vis = [x.tok if isinstance(x, Fresh) else x for x in d.vis]
        self.held = ["z"] * int(o.held[0][1:]) if (self.zst and o.held) else [h.rstrip("!") for h in o.held]
        if not self.zst:
            self.seen.update(owners.keys())
            for i in prev_owned:
                if i not in owners: self.gone.add(i)

    def forget_oracle(self, toks, o):
        """C07: after a forgotten handle / range iterator / item the elements before the affected index are
        unchanged, later ones may be missing, and nothing new appears out of nowhere"""
        what = " ".join(toks); op = toks[0]
        if op not in ("pop", "remove", "swapremove", "drain", "splice"): return
        v = int(toks[1]); d = self.vecs.get(v)
        if d is None or v not in o.vecs: return
        old = d.vis
        if op == "pop": idx = max(len(old) - 1, 0)
        elif op in ("remove", "swapremove"): idx = int(toks[2])
        else:
            r = math_range(len(old), toks[2], toks[3])
            if r is None: return
            idx = r[0]
        ln, cap, body = o.vecs[v]
        ids = body_ids(body)
        if ln < min(idx, len(old)):
            self.fail("forget-prefix", "%s: only %d elements left, the %d before the affected index must stay" % (what, ln, idx))
        if ids is None: return
        new = [i.rstrip("!") for i in ids]
        if new[:idx] != old[:idx]:
            self.fail("forget-prefix", "%s: elements before index %d changed: %r -> %r" % (what, idx, old[:idx], new[:idx]))
        if not self.zst:
            for i in new[idx:]:
                if i not in old and i in self.seen:
                    self.fail("forget-prefix", "%s: element %s appeared in the vector from elsewhere" % (what, i))
            # the element that was handed to the forgotten handle is gone for good: it may not stay visible
            if op in ("pop", "remove", "swapremove") and toks[-1] == "forget" and idx < len(old) and old[idx] in new:
                self.fail("forget-prefix", "%s: element %s was handed to the forgotten handle but is still visible in the vector"
                          % (what, old[idx]))
            if len(set(new)) != len(new):
                self.fail("forget-prefix", "%s: an element appears twice after the forget: %r" % (what, new))

    def capacity_oracle(self, toks, o, prev_caps, prev_lens):
        """promises of reserve / reserve_exact / shrink_to(_fit) / with_capacity, stack capacities"""
        what = " ".join(toks); op = toks[0]
        from gen import kind_cap
        if op in ("new", "withcap", "cloneempty", "cloneemptyin", "clone"):
            k = self.nvec - 1
            if k in o.vecs and k in self.vecs:
                d = self.vecs[k]; cap = o.vecs[k][1]
                want = kind_cap(d.bk, self.size)
                if want is not None and want >= 0 and cap != want:
                    self.fail("capacity", "%s: %s vector reports capacity %d, expected %d" % (what, d.bk, cap, want))
                if op == "withcap" and o.res == "ok" and cap < int(toks[4]):
                    self.fail("capacity", "%s: capacity %d < requested %d" % (what, cap, int(toks[4])))
            return
        if op in ("reserve", "reserveexact", "shrinktofit", "shrinkto") and o.res == "ok":
            v = int(toks[1])
            if v not in o.vecs or v not in prev_caps: return
            ln, cap, _ = o.vecs[v]; old = prev_caps[v]; d = self.vecs[v]
            evs = [e for e in o.ev if e[0] in "amr" or e.startswith("da")]
            if op in ("reserve", "reserveexact"):
                n = int(toks[2])
                if cap < ln + n: self.fail("capacity", "%s: capacity %d < len + additional = %d" % (what, cap, ln + n))
                if old >= ln + n and (cap != old or evs):
                    self.fail("capacity", "%s: capacity was already sufficient (%d) but changed to %d / storage calls %r" % (what, old, cap, evs))
            else:
                bound = ln if op == "shrinktofit" else max(ln, int(toks[2]))
                if cap > old: self.fail("capacity", "%s: capacity grew from %d to %d" % (what, old, cap))
                if cap < min(old, bound): self.fail("capacity", "%s: capacity %d below the bound %d" % (what, cap, min(old, bound)))
                if d.bk == "heap" and cap != min(old, bound):
                    self.fail("capacity", "%s: heap capacity %d, expected exactly %d" % (what, cap, min(old, bound)))
        # operations that have no business with the capacity leave it alone (a raw-parts round trip above all)
        if op in ("rawrt", "rawparts", "get", "at", "iter", "iterc", "info", "probe", "views", "dcvec", "lazydc", "swapb", "tswap",
                  "wswap", "tassign", "clear", "pop", "remove", "swapremove", "tpop", "tremove", "tswapremove", "drain") and o.res == "ok":
            v = int(toks[1]) if len(toks) > 1 and toks[1].isdigit() else None
            if v is not None and v in o.vecs and v in prev_caps and o.vecs[v][1] != prev_caps[v]:
                self.fail("capacity", "%s: capacity changed from %d to %d" % (what, prev_caps[v], o.vecs[v][1]))
        # amortised growth of push runs
        if op in ("push", "tpush") and o.res == "ok":
            v = int(toks[1])
            if v in o.vecs and v in prev_caps:
                p, c = self.push_run.get(v, (0, 0))
                p += 1
                if o.vecs[v][1] != prev_caps[v]: c += 1
                self.push_run[v] = (p, c)
                bound = p.bit_length() + 1 if self.vecs[v].bk == "heap" else 2 * p.bit_length() + 3
                if p >= 4 and c > bound:
                    self.fail("capacity", "%s: %d capacity changes in a run of %d pushes (not amortised)" % (what, c, p))
        elif op not in ("get", "at", "iter", "iterc", "info", "probe", "views"):
            for v in list(self.push_run):
                if len(toks) > 1 and toks[1].isdigit() and int(toks[1]) == v: self.push_run.pop(v, None)

    def alloc_oracle(self, toks, o, had_heap):
        """allocator protocol as seen by the instrumented global allocator"""
        from obs import is_alloc_ev
        what = " ".join(toks)
        evs = [e for e in o.ev if is_alloc_ev(e)]
        if o.res != "ok":
            # the panic machinery allocates too; only the end-of-case balance is checked for these steps
            if evs: self.any_panic_allocs = True
            for e in evs:
                if e.startswith("da"):
                    sz, al = e[2:].split(":"); b = (int(sz), int(al))
                    if b in self.blocks: self.blocks.remove(b)
                elif e.startswith("ra"):
                    old, rest = e[2:].split(">"); new, al = rest.split(":"); b = (int(old), int(al))
                    if b in self.blocks: self.blocks.remove(b); self.blocks.append((int(new), int(al)))
                elif e.startswith("a"):
                    # may be a vector's block or the panic payload: remember it so that a later release is not
                    # reported; the exact accounting is off from here on (any_panic_allocs)
                    sz, al = e[1:].split(":"); self.blocks.append((int(sz), int(al)))
            return
        for e in evs:
            if e.startswith("da"):
                sz, al = e[2:].split(":"); b = (int(sz), int(al))
                if b in self.blocks: self.blocks.remove(b)
                else: self.fail("alloc-protocol", "%s: dealloc of a block (%d bytes, align %d) that is not live" % (what, b[0], b[1]))
            elif e.startswith("ra"):
                old, rest = e[2:].split(">"); new, al = rest.split(":"); b = (int(old), int(al))
                if b in self.blocks: self.blocks.remove(b)
                else: self.fail("alloc-protocol", "%s: realloc presents a layout (%d bytes, align %d) that is not live" % (what, b[0], b[1]))
                if int(new) == 0 or int(new) > 2**63 - 1: self.fail("alloc-protocol", "%s: realloc to invalid size %s" % (what, new))
                self.blocks.append((int(new), int(al)))
            else:
                sz, al = e[1:].split(":")
                if int(sz) == 0 or int(sz) > 2**63 - 1: self.fail("alloc-protocol", "%s: alloc with invalid size %s" % (what, sz))
                if int(al) != self.align: self.fail("alloc-protocol", "%s: alloc with align %s, element align is %d" % (what, al, self.align))
                self.blocks.append((int(sz), int(al)))
        # every heap vector owns exactly one block of capacity x size bytes (none when that is zero)
        want = []
        for k, d in self.vecs.items():
            if d.alive and d.bk == "heap" and k in o.vecs:
                cap = o.vecs[k][1]
                if cap * self.size > 0: want.append((cap * self.size, self.align))
        if not self.any_panic_allocs and sorted(want) != sorted(self.blocks):
            self.fail("alloc-protocol", "%s: live heap blocks %r, but the heap vectors need exactly %r" % (what, sorted(self.blocks), sorted(want)))
        # stack / empty vectors never touch the heap
        if evs and not had_heap and all((not d.alive) or d.bk not in ("heap",) for d in self.vecs.values()):
            self.fail("heap-use", "%s: allocator calls %r although no live vector is heap-backed" % (what, evs))

    def end(self, z):
        """after every vector and held value is gone"""
        if z is None: return
        if z.z.get("bad"): self.fail("memory", "end of case: %s" % ",".join(z.z["bad"]))
        if z.z.get("live_blocks", 0) != 0:
            self.fail("leak", "end of case: %d heap blocks allocated by the library are still live" % z.z["live_blocks"])
        if self.drop and not self.leaky:
            c, dr = z.z.get("created"), z.z.get("drops")
            if c is not None and dr is not None and c != dr:
                self.fail("leak-at-end", "end of case: %s elements created, %s destroyed (no leak is permitted in this history)" % (c, dr))
