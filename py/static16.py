"""C16: uses of a vector that conflict with a live handle must be rejected at compile time.
Signature table scanned from /repo/src (regenerated every run) -> Lean (`Gen/Sig.lean`, decided in the kernel);
systematically generated conflict / control programs -> rustc (the oracle); model verdict vs rustc verdict row by row."""
import os, re, time
import runner as R
import props as P
import static as S

HEAD = '''#![allow(unused)]
use any_vec::{AnyVec, any_value::*, traits::*, element::*};
fn mk() -> AnyVec<dyn Cloneable> {
    let mut v: AnyVec<dyn Cloneable> = AnyVec::new::<String>();
    v.push(AnyValueWrapper::new(String::from("a")));
    v.push(AnyValueWrapper::new(String::from("b")));
    v
}
fn use_it<T>(_t: T) {}
'''

# name, (file, fn, impl-type hint), expression on `v`, kind, consumable by value
ERASED = [
    ("get", ("any_vec.rs", "get"), "v.get(0).unwrap()", "shared", True),
    ("at", ("any_vec.rs", "at"), "v.at(0)", "shared", True),
    ("get_mut", ("any_vec.rs", "get_mut"), "v.get_mut(0).unwrap()", "excl", True),
    ("at_mut", ("any_vec.rs", "at_mut"), "v.at_mut(0)", "excl", True),
    ("iter", ("any_vec.rs", "iter"), "v.iter()", "shared", True),
    ("iter_mut", ("any_vec.rs", "iter_mut"), "v.iter_mut()", "excl", True),
    ("pop", ("any_vec.rs", "pop"), "v.pop().unwrap()", "excl", True),
    ("remove", ("any_vec.rs", "remove"), "v.remove(0)", "excl", True),
    ("swap_remove", ("any_vec.rs", "swap_remove"), "v.swap_remove(0)", "excl", True),
    ("drain", ("any_vec.rs", "drain"), "v.drain(..)", "excl", True),
    ("splice", ("any_vec.rs", "splice"), "v.splice(0..1, [AnyValueWrapper::new(String::new())])", "excl", True),
    ("as_bytes", ("any_vec.rs", "as_bytes"), "v.as_bytes()", "shared", False),
    ("as_bytes_mut", ("any_vec.rs", "as_bytes_mut"), "v.as_bytes_mut()", "excl", True),
    ("spare_bytes_mut", ("any_vec.rs", "spare_bytes_mut"), "v.spare_bytes_mut()", "excl", True),
    ("downcast_ref", ("any_vec.rs", "downcast_ref"), "v.downcast_ref::<String>().unwrap()", "shared", True),
    ("downcast_mut", ("any_vec.rs", "downcast_mut"), "v.downcast_mut::<String>().unwrap()", "excl", True),
]
# typed methods called on `tv` (an AnyVecMut obtained from `v`)
TYPED = [
    ("t_at", ("any_vec_typed.rs", "at"), "tv.at(0)", "shared"),
    ("t_get", ("any_vec_typed.rs", "get"), "tv.get(0).unwrap()", "shared"),
    ("t_as_slice", ("any_vec_typed.rs", "as_slice"), "tv.as_slice()", "shared"),
    ("t_iter", ("any_vec_typed.rs", "iter"), "tv.iter()", "shared"),
    ("t_at_mut", ("any_vec_typed.rs", "at_mut"), "tv.at_mut(0)", "excl"),
    ("t_get_mut", ("any_vec_typed.rs", "get_mut"), "tv.get_mut(0).unwrap()", "excl"),
    ("t_as_mut_slice", ("any_vec_typed.rs", "as_mut_slice"), "tv.as_mut_slice()", "excl"),
    ("t_iter_mut", ("any_vec_typed.rs", "iter_mut"), "tv.iter_mut()", "excl"),
    ("t_spare_capacity_mut", ("any_vec_typed.rs", "spare_capacity_mut"), "tv.spare_capacity_mut()", "excl"),
    ("t_drain", ("any_vec_typed.rs", "drain"), "tv.drain(..)", "excl"),
    ("t_splice", ("any_vec_typed.rs", "splice"), "tv.splice(0..1, vec![String::new()])", "excl"),
]
# element-level methods called on `e`
ELEM = [
    ("e_downcast_ref", ("element.rs", "downcast_ref"), "shared"),
    ("e_downcast_mut", ("element.rs", "downcast_mut"), "excl"),
]
LAZY = ("lazy_clone", ("any_value/mod.rs", "lazy_clone"))
# mutating methods of the typed view, called on `r`: through an `AnyVecRef` (a shared view, obtained from `&AnyVec` while
# other shared borrows of the vector are alive) none of them may be callable; through an `AnyVecMut` all are
MUTATORS = [
    ("tm_push", ("any_vec_typed.rs", "push"), "r.push(String::new());"),
    ("tm_insert", ("any_vec_typed.rs", "insert"), "r.insert(0, String::new());"),
    ("tm_pop", ("any_vec_typed.rs", "pop"), "let _x = r.pop();"),
    ("tm_remove", ("any_vec_typed.rs", "remove"), "let _x = r.remove(0);"),
    ("tm_swap_remove", ("any_vec_typed.rs", "swap_remove"), "let _x = r.swap_remove(0);"),
    ("tm_clear", ("any_vec_typed.rs", "clear"), "r.clear();"),
    ("tm_drain", ("any_vec_typed.rs", "drain"), "let _x = r.drain(..);"),
    ("tm_splice", ("any_vec_typed.rs", "splice"), "let _x = r.splice(0..1, vec![String::new()]);"),
    ("tm_reserve", ("any_vec_typed.rs", "reserve"), "r.reserve(1);"),
    ("tm_reserve_exact", ("any_vec_typed.rs", "reserve_exact"), "r.reserve_exact(1);"),
    ("tm_shrink_to_fit", ("any_vec_typed.rs", "shrink_to_fit"), "r.shrink_to_fit();"),
    ("tm_shrink_to", ("any_vec_typed.rs", "shrink_to"), "r.shrink_to(0);"),
    ("tm_set_len", ("any_vec_typed.rs", "set_len"), "unsafe { r.set_len(0); }"),
    ("tm_at_mut", ("any_vec_typed.rs", "at_mut"), "let _x = r.at_mut(0);"),
    ("tm_get_mut", ("any_vec_typed.rs", "get_mut"), "let _x = r.get_mut(0);"),
    ("tm_get_unchecked_mut", ("any_vec_typed.rs", "get_unchecked_mut"), "let _x = unsafe { r.get_unchecked_mut(0) };"),
    ("tm_as_mut_ptr", ("any_vec_typed.rs", "as_mut_ptr"), "let _x = r.as_mut_ptr();"),
    ("tm_as_mut_slice", ("any_vec_typed.rs", "as_mut_slice"), "let _x = r.as_mut_slice();"),
    ("tm_iter_mut", ("any_vec_typed.rs", "iter_mut"), "let _x = r.iter_mut();"),
    ("tm_spare_capacity_mut", ("any_vec_typed.rs", "spare_capacity_mut"), "let _x = r.spare_capacity_mut();"),
]

def scan_sigs(src_root):
    """(file, fn) -> {recv, ret, tie}; tie = 'owner' when the return type names the impl's lifetime 'a, else 'receiver'"""
    table = {}
    for root, _, fs in os.walk(src_root):
        for f in fs:
            if not f.endswith(".rs"): continue
            p = os.path.join(root, f); rel = os.path.relpath(p, src_root)
            txt = S.strip_comments(open(p).read())
            for m in re.finditer(r"\bfn\s+(\w+)\s*(<[^>(]*>)?\s*\(\s*(&\s*mut\s+self|&\s*self|mut\s+self|self)\b([^{;]*?)\)\s*(->\s*([^{;]+?))?\s*(where\b[^{;]*)?[{;]", txt, flags=re.S):
                name, recv, ret = m.group(1), re.sub(r"\s+", " ", m.group(3)), (m.group(6) or "").strip()
                ret = re.sub(r"\s+", " ", ret)
                recv = "excl" if "mut self" in recv and "&" in recv else ("shared" if "&" in recv else "value")
                tie = "none"
                if ret:
                    if re.search(r"'a\b", ret): tie = "owner"
                    elif re.search(r"&|Ref\b|Mut\b|<|impl\b|Iter|Pop|Remove|Drain|Splice|LazyClone", ret): tie = "receiver"
                table.setdefault((rel, name), []).append({"recv": recv, "ret": ret, "tie": tie})
    return table

def method_rows(sigs):
    rows = []
    def look(key, want_recv=None):
        c = sigs.get(key, [])
        if want_recv: c = [x for x in c if x["recv"] == want_recv] or c
        return c[0] if c else None
    for name, key, expr, kind, _ in ERASED:
        s = look(key, "excl" if kind == "excl" else "shared")
        rows.append({"name": name, "group": "erased", "kind": kind, "sig": s})
    for name, key, expr, kind in TYPED:
        s = look(key, "excl" if kind == "excl" else "shared")
        rows.append({"name": name, "group": "typed", "kind": kind, "sig": s})
    for name, key, kind in ELEM:
        s = look(key, "excl" if kind == "excl" else "shared")
        rows.append({"name": name, "group": "elem", "kind": kind, "sig": s})
    s = look(LAZY[1], "shared")
    rows.append({"name": "lazy_clone", "group": "erased", "kind": "shared", "sig": s})
    return rows

def mutator_rows(sigs):
    """the receiver each mutating typed method has in the source: the least exclusive one when there are several"""
    rows = []
    for name, key, call in MUTATORS:
        c = sigs.get(key, [])
        recv = None
        if c: recv = "shared" if any(x["recv"] == "shared" for x in c) else ("value" if any(x["recv"] == "value" for x in c) else "excl")
        rows.append({"name": name, "recv": recv, "call": call})
    return rows

def programs():
    """(key, method, klass, on_root, conflict_src, control_src)"""
    ps = []
    def fn(body): return HEAD + "pub fn probe() {\n" + "\n".join("    " + l for l in body) + "\n}\n"
    def add(key, method, klass, on_root, pre, conflict_line, post):
        ps.append((key, method, klass, on_root, fn(pre + [conflict_line] + post), fn(pre + post)))
    for name, _, expr, kind, consumable in ERASED + [("lazy_clone", None, None, "shared", True)]:
        if name == "lazy_clone":
            pre = ["let mut v = mk();", "let e = v.at(0);", "let h = e.lazy_clone();"]
            esc_pre = ["let h;", "{", "    let mut v = mk();", "    let e = v.at(0);", "    h = e.lazy_clone();"]
        else:
            pre = ["let mut v = mk();", "let h = %s;" % expr]
            esc_pre = ["let h;", "{", "    let mut v = mk();", "    h = %s;" % expr]
        post = ["use_it(h);"]
        add("erased:%s:mutate-source" % name, name, "mutate-source", True, pre, "v.clear();", post)
        add("erased:%s:move-source" % name, name, "move-source", True, pre, "let w = v;", post)
        add("erased:%s:drop-source" % name, name, "move-source", True, pre, "drop(v);", post)
        if kind == "excl":
            add("erased:%s:read-under-exclusive" % name, name, "read-under-exclusive", True, pre, "let n = v.len();", post)
            add("erased:%s:second-exclusive" % name, name, "second-exclusive", True, pre, "let h2 = v.iter_mut();", post)
        # escape: the handle outlives its vector (control: the use stays inside the scope)
        ctl = ["{"] + ["    " + l for l in pre] + ["    use_it(h);", "}"]
        ps.append(("erased:%s:escape" % name, name, "escape", True, fn(esc_pre + ["}", "use_it(h);"]), fn(ctl)))
        if consumable and name not in ("as_bytes_mut", "spare_bytes_mut", "get", "at", "iter", "downcast_ref", "lazy_clone"):
            add("erased:%s:consume-twice" % name, name, "consume-twice", True, pre + ["use_it(h);"], "use_it(h);", [])
    for name, _, expr, kind in TYPED:
        pre = ["let mut v = mk();", "let mut tv = v.downcast_mut::<String>().unwrap();", "let h = %s;" % expr]
        post = ["use_it(h);"]
        add("typed:%s:view-mutate-reuse" % name, name, "view-mutate-reuse", False, pre, "tv.push(String::new());", post)
        add("typed:%s:mutate-root" % name, name, "mutate-source", True, pre, "v.clear();", post)
        add("typed:%s:move-root" % name, name, "move-source", True, pre, "drop(v);", post)
        if kind == "excl":
            add("typed:%s:two-mutable-paths" % name, name, "two-mutable-paths", False, pre, "let h2 = %s;" % expr, ["use_it(h);"])
            ps[-1] = (ps[-1][0], name, "two-mutable-paths", False,
                      fn(pre + ["let h2 = %s;" % expr, "use_it(h);", "use_it(h2);"]), fn(pre + ["use_it(h);"]))
            add("typed:%s:read-under-exclusive" % name, name, "read-under-exclusive", False, pre, "let n = tv.len();", post)
        esc_pre = ["let h;", "{", "    let mut v = mk();", "    let mut tv = v.downcast_mut::<String>().unwrap();", "    h = %s;" % expr]
        ctl = ["{"] + ["    " + l for l in pre] + ["    use_it(h);", "}"]
        ps.append(("typed:%s:escape-root" % name, name, "escape", True, fn(esc_pre + ["}", "use_it(h);"]), fn(ctl)))
    # element level
    pre = ["let mut v = mk();", "let mut e = v.at_mut(0);", "let a = e.downcast_mut::<String>().unwrap();"]
    ps.append(("elem:e_downcast_mut:two-mutable-paths", "e_downcast_mut", "two-mutable-paths", False,
               fn(pre + ["let b = e.downcast_mut::<String>().unwrap();", "use_it(a);", "use_it(b);"]), fn(pre + ["use_it(a);"])))
    ps.append(("elem:e_downcast_mut:mutate-root", "e_downcast_mut", "mutate-source", True,
               fn(pre + ["drop(e);", "v.clear();", "use_it(a);"]), fn(pre + ["drop(e);", "use_it(a);"])))
    pre = ["let mut v = mk();"]
    ps.append(("elem:e_downcast_ref:outlives-drained-element", "e_downcast_ref", "escape", False,
               fn(pre + ["let r = v.drain(..).next().unwrap().downcast_ref::<String>().unwrap();", "use_it(r.len());"]),
               fn(pre + ["let e = v.drain(..).next().unwrap();", "let r = e.downcast_ref::<String>().unwrap();", "use_it(r.len());"])))
    ps.append(("elem:e_downcast_ref:mutate-root", "e_downcast_ref", "mutate-source", True,
               fn(pre + ["let e = v.at(0);", "let r = e.downcast_ref::<String>().unwrap();", "drop(e);", "v.clear();", "use_it(r);"]),
               fn(pre + ["let e = v.at(0);", "let r = e.downcast_ref::<String>().unwrap();", "drop(e);", "use_it(r);"])))
    # byte views of an element handle are borrows of the handle, not of the vector
    pre = ["let mut v = mk();", "let mut e = v.at_mut(0);"]
    ps.append(("elem:e_as_bytes_mut:two-mutable-paths", "e_as_bytes_mut", "two-mutable-paths", False,
               fn(pre + ["let a = e.as_bytes_mut();", "let b = e.as_bytes_mut();", "use_it(a);", "use_it(b);"]),
               fn(pre + ["let a = e.as_bytes_mut();", "use_it(a);"])))
    ps.append(("elem:e_as_bytes:mutate-under-shared-view", "e_as_bytes", "read-under-exclusive", False,
               fn(pre + ["let a = e.as_bytes();", "let m = e.downcast_mut::<String>().unwrap();", "m.push('x');", "use_it(a);"]),
               fn(pre + ["let a = e.as_bytes();", "use_it(a);", "let m = e.downcast_mut::<String>().unwrap();", "m.push('x');"])))
    pre = ["let mut v = mk();", "let e = v.drain(..).next().unwrap();"]
    ps.append(("elem:e_as_bytes:outlives-drained-element", "e_as_bytes", "escape", False,
               fn(pre + ["let a = e.as_bytes();", "drop(e);", "use_it(a.len());"]),
               fn(pre + ["let a = e.as_bytes();", "use_it(a.len());", "drop(e);"])))
    return ps

def gen_lean(rows, mrows=None):
    L = ["/- generated by py/static16.py from the method signatures in /repo/src on every run -/",
         "namespace AnyVec.Gen.Sig", "inductive Tie where | receiver | owner | none | missing", "  deriving Repr, DecidableEq",
         "inductive Recv where | shared | excl | value | missing", "  deriving Repr, DecidableEq",
         "structure Method where", "  name : String", "  typed : Bool", "  elem : Bool", "  exclusive : Bool", "  recv : Recv", "  tie : Tie",
         "  deriving Repr, DecidableEq", "def table : List Method := ["]
    items = []
    for r in rows:
        s = r["sig"]
        recv = s["recv"] if s else "missing"; tie = s["tie"] if s else "missing"
        items.append("  { name := %s, typed := %s, elem := %s, exclusive := %s, recv := .%s, tie := .%s }" % (
            S.lean_str(r["name"]), str(r["group"] == "typed").lower(), str(r["group"] == "elem").lower(),
            str(r["kind"] == "excl").lower(), recv, tie))
    L.append(",\n".join(items)); L += ["]"]
    L += ["/-- mutating methods of the typed view with the receiver the source gives them -/", "def mutators : List (String × Recv) := ["]
    L.append(",\n".join("  (%s, .%s)" % (S.lean_str(r["name"]), r["recv"] or "missing") for r in (mrows or [])))
    L += ["]", "end AnyVec.Gen.Sig", ""]
    S.write_gen("Sig", "\n".join(L))

def model_verdict(row, on_root):
    """model: a conflict program is rejected iff the result's lifetime is tied to the receiver borrow, or the conflicting
    action is on the root vector, whose borrow the owner-lifetime result still carries"""
    s = row["sig"]
    if s is None: return None
    if s["tie"] == "receiver": return True
    if s["tie"] == "owner": return bool(on_root)
    return False

def run(tier, seed, replay):
    t0 = time.time()
    known = R.load_known()
    fails = []
    sigs = scan_sigs(os.path.join(R.REPO, "src"))
    rows = method_rows(sigs)
    mrows = mutator_rows(sigs)
    gen_lean(rows, mrows)
    audit = R.lean_audit("C16")
    if audit["problems"] or audit["discharged"] != audit["obligations"] or audit["obligations"] == 0:
        fails.append(("theorem-audit", "Props/C16.lean no longer checks: %s no-failing-input-found" % "; ".join(audit["problems"])[:300], "\n".join(audit["problems"])))
    byname = {r["name"]: r for r in rows}
    for r in rows:
        if r["sig"] is None:
            fails.append(("sig:%s" % r["name"], "method %s not found in the source (renamed?) no-failing-input-found" % r["name"], ""))
        else:
            want = "excl" if r["kind"] == "excl" else "shared"
            if r["group"] != "elem" and r["sig"]["recv"] != want and not (r["name"] in ("lazy_clone",)):
                pass
    rlib, out = S.build_rlib("default")
    if rlib is None:
        print("crate build failed:\n" + (out or "")[-2000:]); return 2
    ps = programs()
    probes = []
    for key, m, klass, on_root, conflict, control in ps:
        k = re.sub(r"\W+", "_", key)
        probes.append(("c16_" + k + "_conflict", conflict, {})); probes.append(("c16_" + k + "_control", control, {}))
    res = S.run_probes(probes, rlib)
    disagreements = 0; nrej = 0
    BORROWCK = {"E0499", "E0502", "E0505", "E0506", "E0597", "E0382", "E0716", "E0503", "E0515", "E0521", "E0594", "E0596"}
    for key, m, klass, on_root, conflict, control in ps:
        k = re.sub(r"\W+", "_", key)
        rc_, rk_ = res["c16_" + k + "_conflict"], res["c16_" + k + "_control"]
        if not rk_["ok"]:
            fails.append(("control:" + key, "the conflict-free control program for %s is rejected by rustc (%s) no-failing-input-found" % (key, ",".join(rk_["codes"])),
                          control + "\n/* rustc: " + rk_["stderr"][-800:] + " */"))
            continue
        rejected = (not rc_["ok"]) and any(c in BORROWCK for c in rc_["codes"])
        if not rc_["ok"] and not rejected:
            fails.append(("probe:" + key, "conflict program for %s fails for a reason other than the borrow checker (%s) no-failing-input-found" % (key, ",".join(rc_["codes"])),
                          conflict + "\n/* rustc: " + rc_["stderr"][-800:] + " */"))
            continue
        if rejected: nrej += 1
        if not rejected:
            fails.append(("row:" + key, "rustc accepts a program in which %s conflicts with a live result of `%s` (class %s)" % (
                "an action on the vector" if on_root else "a second use of the view / handle", m, klass), conflict))
        mv = model_verdict(byname[m], on_root) if m in byname else None
        if mv is not None and mv != rejected:
            disagreements += 1
            fails.append(("model:" + key, "model (signature table) says %s, rustc %s for %s no-failing-input-found" % (
                "rejected" if mv else "accepted", "rejects" if rejected else "accepts", key), conflict))
    # --- mutation through a shared typed view (AnyVecRef) while an element reference of the vector is alive
    mprobes = []
    for r in mrows:
        conflict = HEAD + "pub fn probe() {\n    let v = mk();\n    let e = v.get(0).unwrap();\n    let r = v.downcast_ref::<String>().unwrap();\n    %s\n    use_it(e);\n}\n" % r["call"]
        control = HEAD + "pub fn probe() {\n    let mut v = mk();\n    let mut r = v.downcast_mut::<String>().unwrap();\n    %s\n}\n" % r["call"]
        mprobes.append(("c16_" + r["name"] + "_shared_conflict", conflict, {})); mprobes.append(("c16_" + r["name"] + "_shared_control", control, {}))
    mres = S.run_probes(mprobes, rlib)
    for r in mrows:
        rc_, rk_ = mres["c16_" + r["name"] + "_shared_conflict"], mres["c16_" + r["name"] + "_shared_control"]
        key = "typed:%s:mutate-through-shared-view" % r["name"]
        conflict = [s for (n, s, _) in mprobes if n == "c16_" + r["name"] + "_shared_conflict"][0]
        if r["recv"] is None:
            fails.append(("sig:%s" % r["name"], "method %s not found in the source (renamed?) no-failing-input-found" % r["name"], "")); continue
        if not rk_["ok"]:
            fails.append(("control:" + key, "the conflict-free control program for %s is rejected by rustc (%s) no-failing-input-found" % (key, ",".join(rk_["codes"])),
                          "/* rustc: " + rk_["stderr"][-800:] + " */")); continue
        rejected = (not rc_["ok"]) and any(c in BORROWCK for c in rc_["codes"])
        if not rc_["ok"] and not rejected:
            fails.append(("probe:" + key, "conflict program for %s fails for a reason other than the borrow checker (%s) no-failing-input-found" % (key, ",".join(rc_["codes"])),
                          conflict + "\n/* rustc: " + rc_["stderr"][-800:] + " */")); continue
        if rejected: nrej += 1
        else:
            fails.append(("row:" + key, "rustc accepts a program that mutates the vector through a shared typed view (`AnyVecRef`) with `%s` while an element reference is alive" % r["name"][3:], conflict))
        if (r["recv"] == "excl") != rejected:
            disagreements += 1
            fails.append(("model:" + key, "model (receiver table) says %s, rustc %s for %s no-failing-input-found" % (
                "rejected" if r["recv"] == "excl" else "accepted", "rejects" if rejected else "accepts", key), conflict))
    probes = probes + mprobes
    rc, nviol, hits = S.report("C16", fails, known)
    S.evidence("C16", tier, seed, audit, {"methods": len(rows), "programs": len(probes), "conflict_programs_rejected": nrej,
               "model_vs_rustc_disagreements": disagreements, "known_findings_hit": hits, "typed_mutators": [{"name": r["name"], "recv": r["recv"]} for r in mrows],
               "signature_table": [{"name": r["name"], "recv": (r["sig"] or {}).get("recv"), "tie": (r["sig"] or {}).get("tie"), "ret": (r["sig"] or {}).get("ret")} for r in rows]},
               time.time() - t0, nviol,
               "every handle-producing method (erased API, typed view, element level, lazy clone) x every conflict class (mutate / move / drop the "
               "source, read it under an exclusive handle, second exclusive handle, escape the source's scope, consume twice, mutate through the typed "
               "view and reuse an earlier borrow, two mutable paths to one element), and every mutating method of the typed view called through a shared view (AnyVecRef) while an element reference is alive, each paired with its conflict-free control; rustc's verdict and "
               "error code per program; compared with the verdict the signature table predicts",
               [ps[0][4].split("\n")[-4:], ps[40][4].split("\n")[-6:]], len(probes), len(probes))
    print("C16 %s: %d methods, %d programs, %d conflicts rejected, %d model/rustc disagreements, %d theorems (%d discharged), %.1fs" % (
        tier, len(rows), len(probes), nrej, disagreements, audit["obligations"], audit["discharged"], time.time() - t0))
    return rc
