"""Translator for the crate's pure integer kernels: Rust source -> Lean definitions (Gen/Kernel.lean).

Second tie of the model to the source (the first is the differential correspondence): the functions
below contain no pointer work, only `usize` arithmetic, comparisons, asserts and one call into the
storage backend. They are re-translated from /repo/src on every run into Lean definitions over `Nat`
in the `Res` monad; `Props/Kernel.lean` proves that the hand-written model *is* these definitions, so a
change of any comparison, bound, formula or panic in them breaks a proof obligation.

Supported Rust subset (anything else -> KernelError, reported as a broken obligation):
  let x = e;   assert!(c [, "msg"]);   if c { .. } [else { .. }]   e;   return;   tail expression
  integers, usize::MAX, paths, (e), *e, !e, e.f, e.m(args), a op b (.. || && == != < <= > >= + - * /),
  match e { Pat(x) => e, .. },  if-else as expression, struct literals (only the `size` field is read)
Arithmetic: checked_add/checked_mul + expect -> checkedAdd/checkedMul (panic with the message);
saturating_mul -> satMul; cmp::max/min -> max/min; unchecked + - * / -> the operation on naturals
(truncating subtraction, total division): see DESIGN.md, trusted base.
"""
import re, os

class KernelError(Exception):
    pass

# ------------------------------------------------------------------------------------------ source access
def strip_comments(src):
    src = re.sub(r"/\*.*?\*/", lambda m: " " * len(m.group(0)) if "\n" not in m.group(0) else "\n" * m.group(0).count("\n"), src, flags=re.S)
    return re.sub(r"//[^\n]*", "", src)

def find_fn(src, name, after=None):
    """body text (between the outer braces) of `fn name`, searched after the first occurrence of `after`"""
    start = 0
    if after is not None:
        start = src.find(after)
        if start < 0: raise KernelError("marker %r not found" % after)
    m = re.compile(r"\bfn\s+%s\s*[<(]" % re.escape(name)).search(src, start)
    if not m: raise KernelError("fn %s not found" % name)
    i = src.find("{", m.end())
    # skip a where-clause: the body's brace is the first one at paren depth 0 after the parameter list
    depth = 0; j = m.end() - 1; par = 0
    while j < len(src):
        c = src[j]
        if c == "(": par += 1
        elif c == ")": par -= 1
        elif c == "{" and par == 0: break
        elif c == ";" and par == 0: raise KernelError("fn %s has no body" % name)
        j += 1
    i = j; depth = 0
    for k in range(i, len(src)):
        if src[k] == "{": depth += 1
        elif src[k] == "}":
            depth -= 1
            if depth == 0: return src[i + 1:k]
    raise KernelError("unbalanced braces in fn %s" % name)

# ------------------------------------------------------------------------------------------ tokens
TOK = re.compile(r"""\s*(?:(?P<str>"(?:\\.|[^"\\])*")|(?P<num>\d[\d_]*(?:usize)?)|(?P<id>[A-Za-z_][A-Za-z_0-9]*!?)|
                      (?P<op>\.\.=|\.\.|::|=>|==|!=|<=|>=|&&|\|\||\+=|-=|[-+*/<>=!.,;:(){}\[\]&|#]))""", re.X)

def tokenize(text):
    out = []; i = 0
    text = text.strip()
    while i < len(text):
        m = TOK.match(text, i)
        if not m or m.end() == i: raise KernelError("cannot tokenize near %r" % text[i:i + 30])
        i = m.end()
        for k in ("str", "num", "id", "op"):
            if m.group(k) is not None: out.append((k, m.group(k))); break
    return out

# ------------------------------------------------------------------------------------------ parser (AST as tuples)
class P:
    def __init__(self, toks): self.t = toks; self.i = 0
    def peek(self, k=0): return self.t[self.i + k] if self.i + k < len(self.t) else ("eof", "")
    def next(self): x = self.peek(); self.i += 1; return x
    def accept(self, v):
        if self.peek()[1] == v: self.i += 1; return True
        return False
    def expect(self, v):
        if not self.accept(v): raise KernelError("expected %r, found %r" % (v, self.peek()[1]))

    def block(self):
        """stmts until '}' (not consumed) or eof -> list of statements"""
        out = []
        while self.peek()[0] != "eof" and self.peek()[1] != "}":
            if self.accept(";"): continue
            if self.peek()[1] == "#":        # attribute
                self.next(); self.expect("["); d = 1
                while d:
                    t = self.next()[1]
                    if t == "[": d += 1
                    elif t == "]": d -= 1
                continue
            if self.accept("use"):          # `use path::*;` inside a body
                while self.next()[1] != ";": pass
                continue
            if self.peek()[1] in ("unsafe", "{"):      # a block statement needs no `;`
                e = self.primary(); self.accept(";")
                if self.peek()[1] == "}" or self.peek()[0] == "eof": out.append(("tail", e))
                else: out.append(("expr", e))
                continue
            if self.accept("for"):
                var = self.next()[1]; self.expect("in")
                r = self.expr_nostruct(); self.expect("{"); b = self.block(); self.expect("}"); self.accept(";")
                out.append(("for", var, r, b)); continue
            if self.accept("while"):
                c = self.expr_nostruct(); self.expect("{"); b = self.block(); self.expect("}"); self.accept(";")
                out.append(("while", c, b)); continue
            if self.accept("let"):
                self.accept("mut")
                name = self.next()
                if name[0] != "id": raise KernelError("unsupported let pattern %r" % name[1])
                if self.peek()[1] == "{":          # `let Range{start, end} = e;`
                    self.next(); fields = []
                    while not self.accept("}"):
                        fields.append(self.next()[1]); self.accept(",")
                    self.expect("="); e = self.expr(); self.expect(";")
                    out.append(("letstruct", name[1], fields, e)); continue
                if self.accept(":"):        # type annotation
                    while self.peek()[1] != "=": self.next()
                self.expect("="); e = self.expr(); self.expect(";")
                out.append(("let", name[1], e)); continue
            if self.peek()[1] in ("assert!", "debug_assert!"):
                dbg = self.next()[1] == "debug_assert!"
                self.expect("("); c = self.expr(); msg = None
                if self.accept(","):
                    t = self.next()
                    if t[0] != "str": raise KernelError("assert message is not a literal")
                    msg = t[1]
                self.expect(")"); self.accept(";")
                if not dbg: out.append(("assert", c, msg))
                continue
            if self.accept("return"):
                if self.peek()[1] == ";": self.next(); out.append(("return", None))
                else: e = self.expr(); self.accept(";"); out.append(("return", e))
                continue
            if self.peek()[1] == "if":
                e = self.expr()
                self.accept(";")
                out.append(("expr", e)); continue
            e = self.expr()
            if self.peek()[1] in ("=", "-=", "+="):
                op = self.next()[1]; rhs = self.expr()
                if self.peek()[1] != "}": self.expect(";")
                out.append(("assign", e, op, rhs)); continue
            if self.accept(";"): out.append(("expr", e))
            elif self.peek()[1] in ("}",) or self.peek()[0] == "eof": out.append(("tail", e))
            else: raise KernelError("unexpected token %r after expression" % self.peek()[1])
        return out

    PREC = [("..", 1), ("||", 2), ("&&", 3), ("==", 4), ("!=", 4), ("<", 4), ("<=", 4), (">", 4), (">=", 4),
            ("+", 5), ("-", 5), ("*", 6), ("/", 6)]
    def expr(self, minp=0):
        lhs = self.unary()
        while True:
            op = self.peek()[1]
            pr = dict(self.PREC).get(op)
            if pr is None or pr < minp or self.peek()[0] != "op": break
            self.next()
            rhs = self.expr(pr + 1)
            lhs = ("bin", op, lhs, rhs)
        return lhs
    def unary(self):
        if self.accept("*"): return ("deref", self.unary())
        if self.accept("!"): return ("not", self.unary())
        if self.accept("&"): self.accept("mut"); return self.unary()
        return self.postfix(self.primary())
    def postfix(self, e):
        while True:
            if self.peek() == ("id", "as"):
                # a cast: the type is kept as text (pointer kernels need to know `*mut u8` from `*mut T`)
                self.next(); d = 0; ty = []
                while True:
                    t = self.peek()[1]
                    if d == 0 and (t in (")", ",", ";", "}", "{", "=>") or self.peek()[0] == "eof"): break
                    if d == 0 and self.peek() == ("id", "as"): break
                    if d == 0 and t in ("!=", "==", "&&", "||", "=", "+", "-", "/", "<=", ">="): break
                    if t in ("<", "("): d += 1
                    elif t in (">", ")"): d -= 1
                    ty.append(t); self.next()
                e = ("cast", e, " ".join(ty))
                continue
            if self.peek()[1] == "." and self.peek(1)[0] == "num" and self.peek(1)[1].isdigit():
                self.next(); e = ("field", e, self.next()[1]); continue
            if self.peek()[1] == "." and self.peek(1)[0] == "id":
                self.next(); name = self.next()[1]
                gen = None
                if self.peek()[1] == "::" and self.peek(1)[1] == "<":      # turbofish
                    self.next(); gen = self.generics()
                if self.accept("("):
                    args = []
                    while not self.accept(")"):
                        args.append(self.expr()); self.accept(",")
                    e = ("call", e, name, args, gen)
                else: e = ("field", e, name)
            else: return e
    def generics(self):
        """skip a balanced `<...>` and return its text"""
        self.expect("<"); d = 1; out = []
        while d:
            t = self.next()
            if t[0] == "eof": raise KernelError("unbalanced generic arguments")
            if t[1] == "<": d += 1
            elif t[1] == ">": d -= 1
            if d: out.append(t[1])
        return " ".join(out)
    def primary(self):
        if self.peek()[1] in ("|", "||"):          # closure
            params = []
            if self.next()[1] == "|":
                while not self.accept("|"): params.append(self.next()[1])
            body = self.expr()
            return ("closure", params, body)
        if self.peek() == ("op", "<"):
            g = self.generics(); path = ["<" + g + ">"]
            while self.peek()[1] == "::" and self.peek(1)[0] == "id":
                self.next(); path.append(self.next()[1])
            gen = None
            if self.peek()[1] == "::" and self.peek(1)[1] == "<": self.next(); gen = self.generics()
            name = "::".join(path)
            if self.peek()[1] == "(":
                self.next(); args = []
                while not self.accept(")"): args.append(self.expr()); self.accept(",")
                return ("fcall", name, args, gen)
            return ("var", name)
        k, v = self.next()
        if k == "num": return ("num", int(v.replace("_", "").replace("usize", "")))
        if k == "str": return ("str", v)
        if v == "(":
            e = self.expr()
            if self.accept(","):        # tuple
                es = [e]
                while not self.accept(")"): es.append(self.expr()); self.accept(",")
                return ("tuple", es)
            self.expect(")")
            if self.peek()[1] == "(" and e[0] == "var":      # `(drop_fn)(ptr, n)`
                self.next(); args = []
                while not self.accept(")"): args.append(self.expr()); self.accept(",")
                return ("fcall", e[1], args, None)
            return e
        if v == "match":
            scrut = self.expr_nostruct(); self.expect("{"); arms = []
            while not self.accept("}"):
                pat = self.pattern(); self.expect("=>")
                if self.accept("{"): body = ("block", self.block()); self.expect("}")
                else: body = self.expr()
                self.accept(","); arms.append((pat, body))
            return ("match", scrut, arms)
        if v == "if":
            if self.accept("let"):
                pat = self.pattern(); self.expect("="); c = ("iflet", pat, self.expr_nostruct())
            else: c = self.expr_nostruct()
            self.expect("{"); a = self.block(); self.expect("}")
            b = None
            if self.accept("else"):
                if self.peek()[1] == "if": b = [("tail", self.primary())]
                else: self.expect("{"); b = self.block(); self.expect("}")
            return ("if", c, a, b)
        if v == "unsafe":
            self.expect("{"); b = self.block(); self.expect("}"); return ("block", b)
        if v == "{":
            b = self.block(); self.expect("}"); return ("block", b)
        if k == "id":
            path = [v]; gen = None
            while self.peek()[1] == "::" and (self.peek(1)[0] == "id" or self.peek(1)[1] == "<"):
                self.next()
                if self.peek()[1] == "<": gen = self.generics()
                else: path.append(self.next()[1])
            name = "::".join(path)
            if self.peek()[1] == "(" :
                self.next(); args = []
                while not self.accept(")"): args.append(self.expr()); self.accept(",")
                return ("fcall", name, args, gen)
            if self.peek()[1] == "{" and not getattr(self, "nostruct", False) and name[0].isupper():
                self.next(); fields = {}
                while not self.accept("}"):
                    f = self.next()[1]
                    if self.accept(":"): fields[f] = self.expr()
                    else: fields[f] = ("var", f)
                    self.accept(",")
                return ("struct", name, fields)
            return ("var", name)
        raise KernelError("unexpected token %r" % v)
    def expr_nostruct(self):
        old = getattr(self, "nostruct", False); self.nostruct = True
        try: return self.expr()
        finally: self.nostruct = old
    def pattern(self):
        k, v = self.next()
        path = [v]
        while self.peek()[1] == "::": self.next(); path.append(self.next()[1])
        binder = None
        if self.accept("("):
            binder = self.next()[1]; self.expect(")")
        return ("::".join(path), binder)

# ------------------------------------------------------------------------------------------ Lean emission
class Emit:
    """translate a parsed body into a Lean `do` block in `Res`. env: {rust path -> lean term} for the free inputs."""
    def __init__(self, env, effects, bounds=None, state=None, ignore=None, exports=None):
        self.env = dict(env); self.effects = effects; self.bounds = bounds or {}; self.tmp = 0
        self.state = state or {}        # assignable rust paths -> lean variable (re-bound by `let` on assignment)
        self.ignore = set(ignore or [])  # names of non-integer locals (raw pointers, references)
        self.exports = exports          # struct literal at the tail: which fields the kernel reports
    def fresh(self):
        self.tmp += 1; return "t%d" % self.tmp
    LEAN_KW = {"end", "have", "show", "from", "at", "fun", "do", "then", "else", "with", "in", "let", "if", "match", "open",
               "local", "where", "by", "this", "suffices", "calc", "def", "theorem", "instance", "namespace", "section",
               "variable", "universe", "import", "mutual", "deriving", "structure", "inductive", "class", "abbrev", "size"}
    def name(self, n):
        n = n.lstrip("_") or "u"
        return n + "_" if n in self.LEAN_KW else n

    def pure(self, e, pre):
        """-> lean Nat/Bool term; monadic sub-computations are bound into `pre` (list of lines)"""
        k = e[0]
        if k == "num": return str(e[1])
        if k == "var":
            if e[1] in self.env: return self.env[e[1]]
            if e[1] == "usize::MAX": return "USIZE_MAX"
            if re.fullmatch(r"[a-z_][a-z_0-9]*", e[1]): return self.name(e[1])
            raise KernelError("unknown name %s" % e[1])
        if k == "deref": return self.pure(e[1], pre)
        if k == "cast": return self.pure(e[1], pre)
        if k == "not": return "(!(%s))" % self.cond(e[1], pre)
        if k == "field":
            key = self.path(e)
            if key in self.state: return self.state[key]
            if key in self.env: return self.env[key]
            raise KernelError("unknown field access %s" % key)
        if k == "call":
            key = self.path(e)
            if key is not None and key in self.env: return self.env[key]
            recv, m, args = e[1], e[2], e[3]
            if m == "expect" and recv[0] == "call" and recv[2] in ("checked_add", "checked_mul"):
                a = self.pure(recv[1], pre); b = self.pure(recv[3][0], pre)
                if args[0][0] != "str": raise KernelError("expect() message is not a literal")
                t = self.fresh()
                pre.append("let %s ← %s %s %s %s" % (t, {"checked_add": "checkedAdd", "checked_mul": "checkedMul"}[recv[2]], par(a), par(b), args[0][1]))
                return t
            if m == "saturating_mul": return "(satMul %s %s)" % (par(self.pure(recv, pre)), par(self.pure(args[0], pre)))
            if m in ("max", "min") and len(args) == 1: return "(%s %s %s)" % (m, par(self.pure(recv, pre)), par(self.pure(args[0], pre)))
            raise KernelError("unsupported method call .%s()" % m)
        if k == "fcall":
            if e[1] in ("cmp::max", "cmp::min", "core::cmp::max", "core::cmp::min", "max", "min"):
                return "(%s %s %s)" % (e[1].split("::")[-1], par(self.pure(e[2][0], pre)), par(self.pure(e[2][1], pre)))
            if e[1].split("::")[-1] in ("element_ptr_at", "element_mut_ptr_at") and len(e[2]) == 2:
                return self.pure(e[2][1], pre)      # an element pointer is its slot number
            raise KernelError("unsupported call %s()" % e[1])
        if k == "bin":
            op = e[1]
            if op in ("+", "-", "*", "/"):
                return "(%s %s %s)" % (self.pure(e[2], pre), op, self.pure(e[3], pre))
            return self.cond(e, pre)
        if k == "if":
            if e[3] is None: raise KernelError("if without else used as a value")
            t = self.fresh()
            pre.append("let %s ← (if %s then %s else %s)" % (t, self.cond(e[1], pre), self.value_block(e[2]), self.value_block(e[3])))
            return t
        if k == "match":
            t = self.fresh()
            pre.append("let %s ← (%s)" % (t, self.match(e, lambda body: self.value_expr(body))))
            return t
        if k == "block":
            t = self.fresh(); pre.append("let %s ← %s" % (t, self.value_block(e[1]))); return t
        raise KernelError("unsupported expression %r" % (k,))
    def cond(self, e, pre):
        if e[0] == "bin" and e[1] in ("==", "!=", "<", "<=", ">", ">=", "&&", "||"):
            a = self.pure(e[2], pre) if e[1] not in ("&&", "||") else self.cond(e[2], pre)
            b = self.pure(e[3], pre) if e[1] not in ("&&", "||") else self.cond(e[3], pre)
            op = {"==": "==", "!=": "!=", "<": "<", "<=": "≤", ">": ">", ">=": "≥", "&&": "&&", "||": "||"}[e[1]]
            if op in ("<", "≤", ">", "≥"): return "(decide (%s %s %s))" % (a, op, b)
            return "(%s %s %s)" % (a, op, b)
        if e[0] == "not": return "(!(%s))" % self.cond(e[1], pre)
        raise KernelError("unsupported condition %r" % (e[0],))
    def path(self, e):
        if e[0] == "var": return e[1]
        if e[0] == "field":
            p = self.path(e[1]); return None if p is None else p + "." + e[2]
        if e[0] == "call" and not e[3]:
            p = self.path(e[1]); return None if p is None else p + "." + e[2] + "()"
        if e[0] == "cast": return self.path(e[1])
        return None
    def value_expr(self, e):
        pre = []; v = self.pure(e, pre)
        return self.wrap(pre, "pure %s" % par(v))
    def value_block(self, stmts):
        return "(" + self.stmts(stmts, lambda e: self.value_expr(e)) + ")"
    def wrap(self, pre, last):
        if not pre: return last
        # nested blocks are pushed to the right so that the items of an inner `do` never line up with the outer one
        return "(do\n" + "\n".join("        " + l.replace("\n", "\n  ") for l in pre + [last]) + ")"
    def match(self, e, arm):
        scr = self.path(e[1])
        if scr not in self.bounds: raise KernelError("match on %r is not supported" % (scr,))
        var = self.bounds[scr]
        lines = ["match %s with" % var]
        seen = set()
        for (pat, binder), body in e[2]:
            ctor = {"Bound::Included": ".incl", "Bound::Excluded": ".excl", "Bound::Unbounded": ".unb",
                    "Included": ".incl", "Excluded": ".excl", "Unbounded": ".unb"}.get(pat)
            if ctor is None: raise KernelError("unsupported pattern %s" % pat)
            seen.add(ctor)
            b = body if body[0] != "block" else None
            rhs = arm(body) if b is not None else self.value_block(body[1])
            lines.append("        | %s%s => %s" % (ctor, (" " + binder) if binder else "", rhs))
        if seen != {".incl", ".excl", ".unb"}: raise KernelError("match on bounds is not exhaustive over the three forms")
        return "\n".join(lines)

    def effect(self, e):
        """recognise a call into the backend: returns a lean KEff term or None"""
        if e[0] == "call":
            key = (self.path(e[1]) or "") + "." + e[2]
            if key in self.effects:
                pre = []
                args = [par(self.pure(a, pre)) for a in e[3]]
                return pre, "%s %s" % (self.effects[key], " ".join(args)) if args else self.effects[key]
        return None
    def stmts(self, stmts, tail):
        """-> lean Res expression; `tail(e)` renders a value-producing tail expression"""
        if not stmts: return "pure KEff.none"
        s, rest = stmts[0], stmts[1:]
        if s[0] == "let" and s[1] in self.ignore:
            return self.stmts(rest, tail)
        if s[0] == "let" and s[1] in getattr(self, "pointers", ()):
            # a pointer-valued local: it stands for the slot it points at
            slots = find_slots(s[2])
            if len(slots) != 1: raise KernelError("cannot tell which slot `%s` points at" % s[1])
            pre = []; v = self.pure(slots[0], pre)
            return self.wrap(pre + ["let %s := %s" % (self.name(s[1]), v)], self.stmts(rest, tail))
        if s[0] == "assign":
            key = self.path(s[1])
            if key not in self.state: raise KernelError("assignment to %s" % (key,))
            pre = []; v = self.pure(s[3], pre); cur = self.state[key]
            if s[2] == "-=": v = "(%s - %s)" % (cur, v)
            elif s[2] == "+=": v = "(%s + %s)" % (cur, v)
            return self.wrap(pre + ["let %s := %s" % (cur, v)], self.stmts(rest, tail))
        if s[0] == "let":
            pre = []; v = self.pure(s[2], pre)
            nm = self.name(s[1]); self.env.pop(s[1], None)
            return self.wrap(pre + ["let %s := %s" % (nm, v)], self.stmts(rest, tail)) if rest or True else None
        if s[0] == "assert":
            pre = []; c = self.cond(s[1], pre)
            msg = s[2] if s[2] is not None else '"assertion failed: %s"' % unparse(s[1])
            return self.wrap(pre, "(if %s then (%s) else Res.panic %s)" % (c, self.stmts(rest, tail), msg))
        if s[0] == "return":
            if s[1] is None: return "pure KEff.none"
            return tail(s[1])
        if s[0] in ("expr", "tail"):
            e = s[1]
            eff = self.effect(e)
            if eff is not None:
                if rest and not all(r[0] == "return" and r[1] is None for r in rest): raise KernelError("statements after the backend call")
                pre, term = eff
                return self.wrap(pre, "pure (%s)" % term)
            if e[0] == "if":
                pre = []; c = self.cond(e[1], pre)
                a = self.stmts(e[2] + ([("cont",)] if False else []), tail)
                # an `if` used as a statement: both branches end the kernel or fall through to `rest`
                thenb = self.branch(e[2], rest, tail); elseb = self.branch(e[3] or [], rest, tail)
                return self.wrap(pre, "(if %s then %s else %s)" % (c, thenb, elseb))
            if e[0] == "struct" and s[0] == "tail" and self.exports is not None:
                pre = []; vals = []
                for ex in self.exports:
                    if "." in ex:       # argument k of a constructor call stored in a field, e.g. iter.1 of `iter: Iter::new(p, a, b)`
                        f, k = ex.split("."); fe = e[2].get(f)
                        if fe is None or fe[0] != "fcall": raise KernelError("field %s is not a constructor call" % f)
                        vals.append(par(self.pure(fe[2][int(k)], pre)))
                    else:
                        if ex not in e[2]: raise KernelError("field %s missing in the struct literal" % ex)
                        vals.append(par(self.pure(e[2][ex], pre)))
                lenv = list(self.state.values())[0] if self.state else "0"
                return self.wrap(pre, "pure (KEff.made %s [%s])" % (lenv, ", ".join(vals)))
            if e[0] == "struct" and s[0] == "tail":
                if "size" in e[2]:
                    pre = []; v = self.pure(e[2]["size"], pre)
                    return self.wrap(pre, "pure (KEff.ret %s)" % par(v))
                return "pure KEff.none"
            if e[0] == "bin" and e[1] == ".." and s[0] == "tail":
                pre = []; a = self.pure(e[2], pre); b = self.pure(e[3], pre)
                return self.wrap(pre, "pure (KEff.ret2 %s %s)" % (par(a), par(b)))
            if e[0] == "match" and s[0] == "tail": return "(" + self.match(e, tail) + ")"
            if s[0] == "tail": return tail(e)
            raise KernelError("unsupported statement %s" % unparse(e))
        raise KernelError("unsupported statement kind %r" % s[0])
    def branch(self, stmts, rest, tail):
        ends = stmts and (stmts[-1][0] == "return" or (stmts[-1][0] in ("expr", "tail") and self.effect(stmts[-1][1]) is not None))
        saved = dict(self.env)
        try:
            if ends or not rest: return "(" + self.stmts(stmts, tail) + ")"
            return "(" + self.stmts(stmts + rest, tail) + ")"
        finally: self.env = saved

def find_slots(e):
    """all `element_ptr_at(_, idx)` index expressions inside an expression tree"""
    out = []
    def walk(x):
        if isinstance(x, tuple):
            if x and x[0] == "fcall" and x[1].split("::")[-1] in ("element_ptr_at", "element_mut_ptr_at") and len(x[2]) == 2:
                out.append(x[2][1]); return
            for y in x: walk(y)
        elif isinstance(x, (list, dict)):
            for y in (x.values() if isinstance(x, dict) else x): walk(y)
    walk(e); return out

def find_vars(e):
    out = []
    def walk(x):
        if isinstance(x, tuple):
            if x and x[0] == "var": out.append(x[1]); return
            for y in x: walk(y)
        elif isinstance(x, (list, dict)):
            for y in (x.values() if isinstance(x, dict) else x): walk(y)
    walk(e); return out

def par(s): return s if re.fullmatch(r"[\w.']+|\(.*\)", s) else "(" + s + ")"

def unparse(e):
    k = e[0]
    if k == "fcall": return "%s(%s)" % (e[1], ", ".join(unparse(a) for a in e[2]))
    if k == "block" and len(e[1]) == 1 and e[1][0][0] == "tail": return unparse(e[1][0][1])
    if k == "cast": return "%s as %s" % (unparse(e[1]), e[2])
    if k == "str": return e[1]
    if k == "num": return str(e[1])
    if k == "var": return e[1]
    if k == "bin": return "%s %s %s" % (unparse(e[2]), e[1], unparse(e[3]))
    if k == "field": return "%s.%s" % (unparse(e[1]), e[2])
    if k == "call": return "%s.%s(%s)" % (unparse(e[1]), e[2], ", ".join(unparse(a) for a in e[3]))
    if k == "deref": return "*" + unparse(e[1])
    if k == "not": return "!" + unparse(e[1])
    return "<%s>" % k

# ------------------------------------------------------------------------------------------ the kernels
RAW = {"self.len": "len", "self.capacity()": "cap"}
KERNELS = [
    # (lean name, file, fn, marker, params, env, effects, bounds)
    ("into_range", "lib.rs", "into_range", None, "(len : Nat) (lo hi : Bnd)", {"len": "len"}, {},
        {"range.start_bound()": "lo", "range.end_bound()": "hi"}),
    ("reserve", "any_vec_raw.rs", "reserve", None, "(len cap additional : Nat)", dict(RAW, additional="additional"),
        {"self.mem.expand": "KEff.expand"}, {}),
    ("reserve_exact", "any_vec_raw.rs", "reserve_exact", None, "(len cap additional : Nat)", dict(RAW, additional="additional"),
        {"self.mem.expand_exact": "KEff.expandExact"}, {}),
    ("reserve_one", "any_vec_raw.rs", "reserve_one", None, "(len cap : Nat)", RAW, {"self.expand_one": "KEff.expand 1 |>.id"}, {}),
    ("expand_one", "any_vec_raw.rs", "expand_one", None, "", {}, {"self.mem.expand": "KEff.expand"}, {}),
    ("shrink_to_fit", "any_vec_raw.rs", "shrink_to_fit", None, "(len cap : Nat)", RAW, {"self.mem.resize": "KEff.resize"}, {}),
    ("shrink_to", "any_vec_raw.rs", "shrink_to", None, "(len cap min_capacity : Nat)", dict(RAW, min_capacity="min_capacity"),
        {"self.mem.resize": "KEff.resize"}, {}),
    ("heap_expand", "mem/heap.rs", "expand", None, "(size_ additional : Nat)", {"self.size()": "size_", "self.size": "size_", "additional": "additional"},
        {"self.resize": "KEff.resize"}, {}),
    ("expand_exact_default", "mem/mod.rs", "expand_exact", None, "(size_ additional : Nat)", {"self.size()": "size_", "additional": "additional"},
        {"self.resize": "KEff.resize"}, {}),
    ("stack_build", "mem/stack.rs", "build", None, "(SIZE esize ealign : Nat)",
        {"SIZE": "SIZE", "element_layout.size()": "esize", "element_layout.align()": "ealign", "super::STACK_MAX_ALIGN": "VecSt.STACK_MAX_ALIGN"}, {}, {}),
    ("stackn_build", "mem/stack_n.rs", "build", None, "(N SIZE esize ealign : Nat)",
        {"N": "N", "SIZE": "SIZE", "element_layout.size()": "esize", "element_layout.align()": "ealign", "super::STACK_MAX_ALIGN": "VecSt.STACK_MAX_ALIGN"}, {}, {}),
    ("stackn_size", "mem/stack_n.rs", "size", None, "(N : Nat)", {"N": "N"}, {}, {}),
    ("iter_len", "iter.rs", "len", None, "(index end_ : Nat)", {"self.end": "end_", "self.index": "index"}, {}, {}),
]
# constructors of removal handles and range iterators: where the length is lowered before any user code can run
CTORS = [
    # (lean name, file, fn, marker, params, env, state, ignore, exports)
    ("pop_new", "ops/pop.rs", "new", None, "(len : Nat)", {}, {"any_vec_raw.len": "len"}, ["any_vec_raw"], []),
    ("remove_new", "ops/remove.rs", "new", None, "(len index : Nat)", {"index": "index"}, {"any_vec_raw.len": "len"}, ["any_vec_raw"],
        ["index", "last_index"]),
    ("swap_remove_new", "ops/swap_remove.rs", "new", None, "(len index : Nat)", {"index": "index"}, {"any_vec_raw.len": "len"}, ["any_vec_raw"],
        ["element", "last_index"]),
    ("drain_new", "ops/drain.rs", "new", None, "(len start end_ : Nat)", {"start": "start", "end": "end_"}, {"any_vec_raw.len": "len"},
        ["any_vec_raw"], ["iter.1", "iter.2", "start", "end", "original_len"]),
    ("splice_new", "ops/splice.rs", "new", None, "(len start end_ : Nat)", {"start": "start", "end": "end_"}, {"any_vec_raw.len": "len"},
        ["any_vec_raw"], ["iter.1", "iter.2", "start", "end", "original_len"]),
]


# ------------------------------------------------------------------------------------------ memory-command kernels
class EmitCmds(Emit):
    """translate an element-moving function into the list of memory commands it issues, in order (`List MCmd`).

    Pointers are tracked as (slot, typed): `mem.as_mut_ptr()` is slot 0 of the storage; `.cast::<T>()` / `as *mut T`
    make a pointer typed; a typed `.add(k)` advances k slots, an untyped `.add(b)` needs `b = element_size * k`
    (anything else is a KernelError: the byte offset is not a whole number of elements)."""
    def __init__(self, env, state, ptr_env=None, ignore=None, helpers=None, flags=None):
        Emit.__init__(self, env, {}, {}, state=state, ignore=ignore)
        self.ptrs = dict(ptr_env or {})      # rust path -> (lean slot term, typed)
        self.sizes = set()                   # locals holding the element size in bytes
        self.helpers = helpers or {}         # "self.bytes()" -> parsed body of the method
        self.flags = flags or {}             # "Unknown::is" -> lean Bool term, "mem::needs_drop" -> ...
        self.declared = set()
        self.slices = {}                     # local -> (slot, count) of a `slice_from_raw_parts_mut`
        self.dropfns = set()                 # locals bound to `Some(drop_fn)`
        self.owner = {}                      # pointer local -> "self" / "cloned" (functions that touch two vectors)
        self.clonefns = set()                # parameters that are the element clone function
        self.typeids = set()                 # locals holding the vector's element type id
        self.zeros = set()                   # counters initialised to 0 and not yet touched
        self.mode = None                     # "pre" / "post": the part of a function before / after its write loop
        self.suppress = False                # post mode: commands before the loop are not emitted again
        self.written = None                  # post mode: lean name of the loop's result

    def nat(self, e):
        pre = []; v = self.pure(e, pre)
        if pre: raise KernelError("checked arithmetic inside a memory kernel expression")
        return par(v)
    def nat_pre(self, e):
        """-> (bindings, lean term): `let t ← checkedAdd a b msg` bindings of checked arithmetic"""
        pre = []; v = self.pure(e, pre)
        for b in pre:
            if not re.fullmatch(r"let t\d+ ← checked(Add|Mul) .*", b): raise KernelError("unsupported computation in a memory kernel")
        return pre, par(v)
    def with_pre(self, pre, body):
        for b in reversed(pre):
            m = re.fullmatch(r"let (t\d+) ← (.*)", b)
            body = "(match %s with\n  | .ok %s => %s\n  | .panic m => [MCmd.panic m]\n  | .ub m => [MCmd.panic m])" % (m.group(2), m.group(1), body)
        return body
    def is_size(self, e):
        if e[0] == "var" and e[1] in self.sizes: return True
        if e[0] == "cast": return self.is_size(e[1])
        if e[0] == "call" and e[2] == "size" and not e[3] and e[1][0] == "call" and e[1][2] == "element_layout": return True
        if e[0] == "fcall" and e[1].split("::")[-1] in ("size_of", "element_size"): return True
        return False
    def elems_of_bytes(self, e):
        """a byte count that is `element_size * k` -> lean term for k"""
        if self.is_size(e): return "1"
        if e[0] == "bin" and e[1] == "*":
            if self.is_size(e[2]): return self.nat(e[3])
            if self.is_size(e[3]): return self.nat(e[2])
        raise KernelError("byte count `%s` is not a multiple of the element size" % unparse(e))
    def ptr(self, e):
        """-> (lean slot term, typed) or None if `e` is not a pointer expression this translator knows"""
        k = e[0]
        key = self.path(e) if k in ("var", "field", "call") else None
        if key is not None and key in self.ptrs: return self.ptrs[key]
        if key is not None and key in self.helpers:
            body = self.helpers[key]
            if len(body) == 1 and body[0][0] == "tail": return self.ptr(body[0][1])
            raise KernelError("helper %s is not a single expression" % key)
        if k == "cast":
            p = self.ptr(e[1])
            if p is None: return None
            ty = e[2].replace(" ", "")
            if not ty.startswith("*"): raise KernelError("pointer cast to %s" % e[2])
            if ty.endswith("_"): return p
            return (p[0], not ty.endswith("u8"))
        if k == "block" and len(e[1]) == 1 and e[1][0][0] == "tail": return self.ptr(e[1][0][1])
        if k == "fcall" and e[1].split("::")[-1] in ("element_ptr_at", "element_mut_ptr_at") and len(e[2]) == 2:
            return (self.nat(e[2][1]), False)
        if k == "call":
            recv, m, args = e[1], e[2], e[3]
            if m in ("as_mut_ptr", "as_ptr") and not args and self.path(recv) in ("self.mem", (getattr(self, "clonevar", None) or "?") + ".mem"): return ("0", False)
            p = self.ptr(recv)
            if p is None: return None
            if m == "cast" and not args:
                gen = (e[4] or "").replace(" ", "")
                return (p[0], gen != "u8")
            if m == "add" and len(args) == 1:
                k_ = self.nat(args[0]) if p[1] else self.elems_of_bytes(args[0])
                return ("(%s + %s)" % (p[0], k_), p[1])
            raise KernelError("unsupported pointer method .%s()" % m)
        return None
    def slot(self, e, what):
        p = self.ptr(e)
        if p is None: raise KernelError("%s: `%s` is not a known element pointer" % (what, unparse(e)))
        return p
    def flag(self, e):
        """a compile-time condition -> lean Bool term, or None"""
        if e[0] == "not":
            f = self.flag(e[1]); return None if f is None else "(!%s)" % f
        if e[0] == "fcall" and e[1] in self.flags and not e[2]: return self.flags[e[1]]
        return None
    def cond(self, e, pre):
        f = self.flag(e)
        if f is not None: return f
        if e[0] == "bin" and e[1] in ("==", "!="):
            a, b = self.ptr(e[2]), self.ptr(e[3])
            if a is not None and b is not None:
                return "(%s %s %s)" % (a[0], e[1], b[0])
            if (a is None) != (b is None): raise KernelError("comparison of a pointer with a non-pointer")
        return Emit.cond(self, e, pre)

    def declare(self, name):
        if name in self.ignore: return
        if name in self.declared: raise KernelError("local `%s` is declared twice (shadowing is not supported)" % name)
        self.declared.add(name)
    def cmd(self, term, rest):
        if self.suppress: return self.cmds(rest)
        return "%s ::\n  %s" % (term, self.cmds(rest))
    def forloop(self, s, rest):
        """the two element-wise loops: the typed clone loop of `clone_fn` and the erased destructor loop of `drop_fn`"""
        var, rng, body = s[1], s[2], s[3]
        if not (rng[0] == "bin" and rng[1] == ".." and rng[2] == ("num", 0)): raise KernelError("for loop is not over 0..n")
        n = self.nat(rng[3])
        flat = []
        for b in body:
            if b[0] in ("expr", "tail") and b[1][0] == "block": flat += list(b[1][1])
            else: flat.append(b)
        if var == "_":
            # drop_in_place(ptr as *mut T); ptr = ptr.add(size_of::<T>())
            if len(flat) != 2: raise KernelError("destructor loop body has %d statements, expected 2" % len(flat))
            b0, b1 = flat
            ok = (b0[0] == "expr" and b0[1][0] == "fcall" and b0[1][1] in ("ptr::drop_in_place", "core::ptr::drop_in_place") and len(b0[1][2]) == 1)
            if not ok: raise KernelError("destructor loop does not start with drop_in_place")
            p = self.slot(b0[1][2][0], "drop_in_place")
            if not p[1]: raise KernelError("drop_in_place through an untyped pointer")
            P = b0[1][2][0]
            while P[0] == "cast": P = P[1]
            ok = b1[0] == "assign" and b1[1] == P and b1[2] == "="
            if ok:
                adv = self.ptr(b1[3]); ok = adv is not None and adv[0] == "(%s + 1)" % p[0]
            if not ok: raise KernelError("destructor loop does not advance the pointer by exactly one element")
            return self.cmd("MCmd.dropEach %s %s" % (p[0], n), rest)
        # clone loop: `let dst = dst.add(i); let src = src.add(i); dst.write((*src).clone());` (the two lets in either order)
        if len(flat) != 3: raise KernelError("clone loop body has %d statements, expected 3" % len(flat))
        lets = {}
        for b_ in flat[:2]:
            ok = (b_[0] == "let" and b_[2][0] == "call" and b_[2][2] == "add" and b_[2][3] == [("var", var)] and b_[2][1][0] == "var"
                  and b_[2][1][1] in self.ptrs and self.ptrs[b_[2][1][1]][1])
            if not ok: raise KernelError("clone loop: expected `let p = q.add(%s)` on a typed pointer" % var)
            lets[b_[1]] = self.ptrs[b_[2][1][1]][0]
        w = flat[2]
        ok = (w[0] == "expr" and w[1][0] == "call" and w[1][2] == "write" and len(w[1][3]) == 1 and w[1][1][0] == "var" and w[1][1][1] in lets)
        if ok:
            a_ = w[1][3][0]
            ok = (a_[0] == "call" and a_[2] == "clone" and not a_[3] and a_[1][0] == "deref" and a_[1][1][0] == "var"
                  and a_[1][1][1] in lets and a_[1][1][1] != w[1][1][1])
        if not ok: raise KernelError("clone loop does not end in `dst.write((*src).clone())`")
        return self.cmd("MCmd.cloneEach %s %s %s" % (lets[a_[1][1][1]], lets[w[1][1][1]], n), rest)
    def loop(self, s, rest):
        """the write loop of `Splice::drop`: `while written < limit { take the next replacement value or break;
        check its type; move it into *ptr; ptr += one element; written += 1 }`"""
        c, body = s[1], s[2]
        if not (c[0] == "bin" and c[1] == "<" and c[2][0] == "var" and c[2][1] in self.zeros):
            raise KernelError("loop condition is not `counter < limit` with a counter starting at 0")
        W = c[2][1]; limit = self.nat(c[3])
        if len(body) != 5: raise KernelError("write loop body has %d statements, expected 5" % len(body))
        b0, b1, b2, b3, b4 = body
        ok = (b0[0] == "let" and b0[2][0] == "match" and self.path(b0[2][1]) == "self.replace_with.next()" and len(b0[2][2]) == 2)
        if ok:
            arms = dict((a[0][0], (a[0][1], a[1])) for a in b0[2][2])
            ok = set(arms) == {"Some", "None"} and arms["Some"][1] == ("var", arms["Some"][0]) and arms["None"][1] == ("var", "break")
        if not ok: raise KernelError("write loop does not start with `let x = match self.replace_with.next() { Some(x) => x, None => break }`")
        X = b0[1]
        ok = (b1[0] == "expr" and b1[1][0] == "fcall" and b1[1][1].split("::")[-1] == "assert_types_equal" and len(b1[1][2]) == 2
              and b1[1][2][0][0] == "var" and b1[1][2][0][1] in self.typeids
              and b1[1][2][1][0] == "call" and b1[1][2][1][2] == "value_typeid" and b1[1][2][1][1] == ("var", X))
        if not ok: raise KernelError("write loop does not check the value's type against the vector's element type")
        ok = b2[0] == "expr" and b2[1][0] == "call" and b2[1][2] == "move_into" and b2[1][1] == ("var", X) and len(b2[1][3]) == 2
        if not ok: raise KernelError("write loop does not move the value in")
        P = b2[1][3][0]
        if P[0] != "var" or P[1] not in self.ptrs: raise KernelError("write loop: move_into target is not a tracked pointer")
        if not self.is_size(b2[1][3][1]): raise KernelError("write loop: move_into size argument is not the element size")
        slot0, typed = self.ptrs[P[1]]
        ok = b3[0] == "assign" and b3[1] == P and b3[2] == "="
        if ok:
            adv = self.ptr(b3[3])
            ok = adv is not None and adv[0] == "(%s + 1)" % slot0
        if not ok: raise KernelError("write loop does not advance the pointer by exactly one element")
        ok = b4[0] == "assign" and b4[1] == ("var", W) and b4[2] == "+=" and b4[3] == ("num", 1)
        if not ok: raise KernelError("write loop does not count the written values one by one")
        self.zeros.discard(W)
        if self.mode == "pre": return "[MCmd.writeLoop %s %s]" % (slot0, limit)
        if self.mode == "post":
            self.suppress = False
            return "(let %s := %s;\n  %s)" % (self.name(W), self.written, self.cmds(rest))
        raise KernelError("a write loop in a function that is not split around it")
    def cmds(self, stmts):
        """-> lean term of type `List MCmd`"""
        if not stmts: return "[]"
        s, rest = stmts[0], stmts[1:]
        if s[0] == "let":
            name, rhs = s[1], s[2]
            self.declare(name)
            if name in self.ignore: return self.cmds(rest)
            if self.is_size(rhs): self.sizes.add(name); return self.cmds(rest)
            if rhs[0] == "fcall" and rhs[1].split("::")[-1] == "slice_from_raw_parts_mut" and len(rhs[2]) == 2:
                p = self.slot(rhs[2][0], "slice_from_raw_parts_mut")
                if not p[1]: raise KernelError("slice of an untyped pointer")
                self.slices[name] = (p[0], self.nat(rhs[2][1])); return self.cmds(rest)
            if rhs[0] == "fcall" and rhs[1].split("::")[-1] == "element_typeid": self.typeids.add(name); return self.cmds(rest)
            if rhs[0] == "call" and rhs[2] == "clone_empty" and not rhs[3] and self.path(rhs[1]) == "self" and self.clonefns:
                # the new vector: its `len` is the state this function assigns, its `mem` the destination storage
                self.clonevar = name; self.state = {name + ".len": "clen"}
                return self.cmd("MCmd.cloneEmpty", rest)
            p = self.ptr(rhs)
            if p is not None:
                nm = self.name(name) + "_p"
                if rhs[0] == "call" and rhs[2] in ("as_mut_ptr", "as_ptr"): self.owner[name] = (self.path(rhs[1]) or "").split(".")[0]
                self.ptrs[name] = (nm, p[1])
                return "(let %s := %s;\n  %s)" % (nm, p[0], self.cmds(rest))
            if rhs == ("num", 0): self.zeros.add(name)
            pre, v = self.nat_pre(rhs); nm = self.name(name); self.env.pop(name, None)
            return self.with_pre(pre, "(let %s := %s;\n  %s)" % (nm, v, self.cmds(rest)))
        if s[0] == "assign":
            key = self.path(s[1])
            if key not in self.state: raise KernelError("assignment to %s" % (key,))
            v = self.nat(s[3]); cur = self.state[key]
            if s[2] == "-=": v = "(%s - %s)" % (cur, v)
            elif s[2] == "+=": v = "(%s + %s)" % (cur, v)
            if self.suppress: return "(let %s := %s;\n  %s)" % (cur, v, self.cmds(rest))
            return "(let %s := %s;\n  MCmd.setLen %s ::\n  %s)" % (cur, v, cur, self.cmds(rest))
        if s[0] == "while": return self.loop(s, rest)
        if s[0] == "for": return self.forloop(s, rest)
        if s[0] == "assert":
            c = self.cond(s[1], [])
            msg = s[2] if s[2] is not None else '"assertion failed: %s"' % unparse(s[1])
            return "(if %s then\n  %s\n  else [MCmd.panic %s])" % (c, self.cmds(rest), msg)
        if s[0] == "return":
            if s[1] is not None: raise KernelError("memory kernel returns a value")
            return "[]"
        if s[0] in ("expr", "tail"):
            e = s[1]
            if e[0] == "block": return self.cmds(list(e[1]) + list(rest))
            if s[0] == "tail" and getattr(self, "clonevar", None) and e == ("var", self.clonevar) and not rest: return "[]"
            if e[0] == "if":
                c = e[1]
                if c[0] == "iflet":
                    (pat, binder), scrut = c[1], c[2]
                    if pat != "Some" or binder is None: raise KernelError("unsupported `if let` pattern %s" % pat)
                    key = self.path(scrut)
                    if key is None or not (key.endswith(".drop_fn") or key == "drop_fn"):
                        raise KernelError("`if let Some(..)` on something other than the vector's drop_fn")
                    if "hasDropFn" not in self.flags: raise KernelError("this kernel has no destructor flag")
                    self.dropfns.add(binder); cl = self.flags["hasDropFn"]
                else:
                    cl = self.cond(c, [])
                a = self.cbranch(e[2], rest); b = self.cbranch(e[3] or [], rest)
                return "(if %s then\n  %s\n  else\n  %s)" % (cl, a, b)
            if e[0] == "call":
                key = (self.path(e[1]) or "") + "." + e[2]
                if key == "self.reserve_one" and not e[3]: return self.cmd("MCmd.reserveOne", rest)
                if getattr(self, "clonevar", None) and key == self.clonevar + ".reserve" and len(e[3]) == 1: return self.cmd("MCmd.reserve %s" % self.nat(e[3][0]), rest)
                if key == "any_vec_raw.reserve" and len(e[3]) == 1: return self.cmd("MCmd.reserve %s" % self.nat(e[3][0]), rest)
                if key == "self.op.consume" and not e[3]: return self.cmd("MCmd.consume", rest)
                if e[2] == "move_into" and self.path(e[1]) == "value" and len(e[3]) == 2:
                    p = self.slot(e[3][0], "move_into")
                    if not self.is_size(e[3][1]): raise KernelError("move_into: size argument is not the element size")
                    return self.cmd("MCmd.moveInto %s" % p[0], rest)
                raise KernelError("unsupported call .%s()" % e[2])
            if e[0] == "fcall":
                fn = e[1]; a = e[2]; short = fn.split("::")[-1]
                if fn in ("ptr::copy", "core::ptr::copy") and len(a) == 3:
                    ps, pd = self.slot(a[0], "ptr::copy"), self.slot(a[1], "ptr::copy")
                    if ps[1] != pd[1]: raise KernelError("ptr::copy between a typed and an untyped pointer")
                    n = self.nat(a[2]) if ps[1] else self.elems_of_bytes(a[2])
                    return self.cmd("MCmd.copy false %s %s %s" % (ps[0], pd[0], n), rest)
                if short == "copy_bytes" and len(a) == 3:
                    ps, pd = self.slot(a[0], "copy_bytes"), self.slot(a[1], "copy_bytes")
                    if ps[1] or pd[1]: raise KernelError("copy_bytes on a typed pointer")
                    return self.cmd("MCmd.copy true %s %s %s" % (ps[0], pd[0], self.elems_of_bytes(a[2])), rest)
                if short == "copy_nonoverlapping_value" and len(a) == 3:
                    ps, pd = self.slot(a[0], "copy_nonoverlapping_value"), self.slot(a[1], "copy_nonoverlapping_value")
                    if not self.is_size(a[2]): raise KernelError("copy_nonoverlapping_value: size argument is not the element size")
                    return self.cmd("MCmd.copyOne %s %s" % (ps[0], pd[0]), rest)
                if short == "drop_elements_range" and len(a) == 3:
                    return self.cmd("MCmd.dropRange %s %s" % (self.nat(a[1]), self.nat(a[2])), rest)
                if short == "move_elements_at" and len(a) == 4:
                    return self.cmd("MCmd.moveElems %s %s %s" % (self.nat(a[1]), self.nat(a[2]), self.nat(a[3])), rest)
                if fn in self.clonefns and len(a) == 3:
                    ps, pd = self.slot(a[0], "clone_fn"), self.slot(a[1], "clone_fn")
                    so = self.owner.get(a[0][1]) if a[0][0] == "var" else None
                    do = self.owner.get(a[1][1]) if a[1][0] == "var" else None
                    if so != "self" or do != getattr(self, "clonevar", None): raise KernelError("clone_fn is not called from self's storage into cloned's")
                    return self.cmd("MCmd.cloneFn %s %s %s" % (ps[0], pd[0], self.nat(a[2])), rest)
                if fn in self.dropfns and len(a) == 2:
                    p = self.slot(a[0], "drop_fn")
                    return self.cmd("MCmd.dropFn %s %s" % (p[0], self.nat(a[1])), rest)
                if fn in ("ptr::drop_in_place", "core::ptr::drop_in_place") and len(a) == 1:
                    if a[0][0] == "var" and a[0][1] in self.slices:
                        sl = self.slices[a[0][1]]
                        return self.cmd("MCmd.dropSlice %s %s" % sl, rest)
                    p = self.slot(a[0], "drop_in_place")
                    if not p[1]: raise KernelError("drop_in_place through an untyped pointer")
                    return self.cmd("MCmd.dropInPlace %s" % p[0], rest)
                if fn in ("mem::forget", "core::mem::forget") and len(a) == 1: return self.cmds(rest)
                raise KernelError("unsupported call %s()" % fn)
            raise KernelError("unsupported statement %s" % unparse(e))
        raise KernelError("unsupported statement kind %r" % s[0])
    def cbranch(self, stmts, rest):
        saved = (dict(self.env), dict(self.ptrs), set(self.sizes), set(self.declared), dict(self.slices), set(self.dropfns),
                 set(self.typeids), set(self.zeros), self.suppress)
        try:
            ends = stmts and stmts[-1][0] == "return"
            return "(" + self.cmds(list(stmts) + ([] if ends else list(rest))) + ")"
        finally:
            (self.env, self.ptrs, self.sizes, self.declared, self.slices, self.dropfns, self.typeids, self.zeros, self.suppress) = saved

MCMD_DECL = """/-- one memory effect of an element-moving function, in program order; slots are element indices
into the vector's storage -/
inductive MCmd where
  /-- `self.reserve_one()` -/
  | reserveOne
  /-- an assignment to `AnyVecRaw::len` -/
  | setLen (n : Nat)
  /-- `ptr::copy` (`erased = false`) or `crate::copy_bytes` (`erased = true`) of `n` element slots -/
  | copy (erased : Bool) (src dst n : Nat)
  /-- `copy_nonoverlapping_value` of one element -/
  | copyOne (src dst : Nat)
  /-- `value.move_into(slot)` -/
  | moveInto (slot : Nat)
  /-- `utils::move_elements_at` -/
  | moveElems (src dst n : Nat)
  /-- `utils::drop_elements_range` -/
  | dropRange (s e : Nat)
  /-- the erased destructor `(drop_fn)(ptr(s), n)` -/
  | dropFn (s n : Nat)
  /-- `ptr::drop_in_place` of the typed slice of `n` elements at `s` -/
  | dropSlice (s n : Nat)
  /-- `ptr::drop_in_place` of the typed element at `s` -/
  | dropInPlace (s : Nat)
  /-- `self.op.consume()` -/
  | consume
  /-- `any_vec_raw.reserve(n)` -/
  | reserve (n : Nat)
  /-- the write loop of `Splice::drop`: at most `limit` values of the replacement iterator, each type-checked and
  moved into consecutive slots from `slot` on -/
  | writeLoop (slot limit : Nat)
  /-- `let mut cloned = self.clone_empty()` -/
  | cloneEmpty
  /-- `(clone_fn)(ptr(src of self), ptr(dst of cloned), n)` -/
  | cloneFn (src dst n : Nat)
  /-- `for i in 0..n { dst.add(i).write((*src.add(i)).clone()) }`: one clone per element, in increasing order -/
  | cloneEach (src dst n : Nat)
  /-- `for _ in 0..n { drop_in_place(ptr); ptr = ptr.add(1 element) }`: one destructor per element, increasing order -/
  | dropEach (s n : Nat)
  | panic (msg : String)
  deriving Repr, DecidableEq
"""
UNK = {"Unknown::is": "(!known)"}
CMD_KERNELS = [
    # (lean name, file, fn, marker, params, env, state, ptr_env, ignore, helper fns, flags)
    ("insert_unchecked_cmds", "any_vec_raw.rs", "insert_unchecked", None, "(vlen index : Nat) (known : Bool)",
        {"index": "index"}, {"self.len": "vlen"}, {}, [], [], UNK),
    ("push_unchecked_cmds", "any_vec_raw.rs", "push_unchecked", None, "(vlen : Nat) (known : Bool)",
        {}, {"self.len": "vlen"}, {}, [], [], UNK),
    ("clear_cmds", "any_vec_raw.rs", "clear", None, "(vlen : Nat) (hasDropFn : Bool)",
        {}, {"self.len": "vlen"}, {}, [], [], {"hasDropFn": "hasDropFn"}),
    ("pop_consume_cmds", "ops/pop.rs", "consume", None, "", {}, {}, {}, [], [], {}),
    ("remove_consume_cmds", "ops/remove.rs", "consume", None, "(index last_index : Nat) (known : Bool)",
        {"self.index": "index", "self.last_index": "last_index"}, {"any_vec_raw.len": "vlen"}, {}, ["any_vec_raw"], ["bytes"], UNK),
    ("swap_remove_consume_cmds", "ops/swap_remove.rs", "consume", None, "(element last_index : Nat)",
        {"self.last_index": "last_index"}, {"any_vec_raw.len": "vlen"}, {"self.element": ("element", False)}, ["any_vec_raw"], [], {}),
    ("drain_drop_cmds", "ops/drain.rs", "drop", None, "(iter_index iter_end start end_ original_len : Nat)",
        {"self.iter.index": "iter_index", "self.iter.end": "iter_end", "self.start": "start", "self.end": "end_",
         "self.original_len": "original_len"}, {"any_vec_raw.len": "vlen"}, {}, ["any_vec_raw"], [], {}),
    ("move_elements_at_cmds", "any_vec_ptr.rs", "move_elements_at", None, "(src_index dst_index len : Nat) (known : Bool)",
        {"src_index": "src_index", "dst_index": "dst_index", "len": "len"}, {}, {}, ["any_vec_raw"], [], UNK),
    ("drop_elements_range_cmds", "any_vec_ptr.rs", "drop_elements_range", None,
        "(start_index end_index : Nat) (known hasDropFn needsDrop : Bool)",
        {"start_index": "start_index", "end_index": "end_index"}, {}, {}, ["any_vec_raw"], [],
        dict(UNK, **{"hasDropFn": "hasDropFn", "mem::needs_drop": "needsDrop"})),
    ("element_drop_cmds", "element.rs", "drop", None, "(slot : Nat) (hasDropFn : Bool)",
        {}, {}, {"self.element.as_ptr()": ("slot", False)}, [], [], {"hasDropFn": "hasDropFn"}),
    ("temp_drop_cmds", "ops/temp.rs", "drop", "impl<Op: Operation> Drop for TempValue", "(slot : Nat) (known hasDropFn : Bool)",
        {}, {}, {"self.op.bytes()": ("slot", False)}, ["drop_fn"], [], dict(UNK, hasDropFn="hasDropFn")),
]

CLONE_KERNELS = [
    # (lean name, file, fn, marker, params, env, state, ptr_env, ignore, clonefns)
    ("clone_cmds", "any_vec_raw.rs", "clone", None, "(len : Nat)", {"self.len": "len"}, {"cloned.len": "clen"}, {}, [], ["clone_fn"]),
    ("clone_fn_cmds", "clone_type.rs", "clone_fn", None, "(len : Nat)", {"len": "len"}, {}, {"src": ("0", False), "dst": ("0", False)}, [], []),
]
SPLICE_ENV = {"self.iter.index": "iter_index", "self.iter.end": "iter_end", "self.start": "start", "self.end": "end_",
              "self.original_len": "original_len", "self.replace_with.len()": "replace_len"}
SPLICE_PARAMS = "(iter_index iter_end start end_ original_len replace_len : Nat)"

def translate_cmds(repo_src):
    out = [MCMD_DECL]; errors = {}
    for (lname, f, fn, marker, params, env, state, ptr_env, ignore, helper_fns, flags, mode) in \
            [k + (None,) for k in CMD_KERNELS] + [
            ("splice_drop_pre_cmds", "ops/splice.rs", "drop", None, SPLICE_PARAMS, SPLICE_ENV, {"any_vec_raw.len": "vlen"}, {},
             ["any_vec_raw", "any_vec_ptr"], [], {}, "pre"),
            ("splice_drop_post_cmds", "ops/splice.rs", "drop", None, SPLICE_PARAMS + " (written_ : Nat)", SPLICE_ENV,
             {"any_vec_raw.len": "vlen"}, {}, ["any_vec_raw", "any_vec_ptr"], [], {}, "post")]:
        try:
            src = strip_comments(open(os.path.join(repo_src, f)).read())
            helpers = {}
            for h in helper_fns:
                helpers["self.%s()" % h] = P(tokenize(find_fn(src, h, marker))).block()
            ast = P(tokenize(find_fn(src, fn, marker))).block()
            em = EmitCmds(env, state, ptr_env, ignore, helpers, flags)
            em.mode = mode
            if mode == "post": em.suppress = True; em.written = "written_"
            lean = em.cmds(ast)
            if mode == "post" and em.suppress: raise KernelError("no write loop found")
        except KernelError as ex:
            errors[lname] = str(ex)
            lean = '[MCmd.panic "kernel %s could not be translated: %s"]' % (lname, str(ex).replace('"', "'"))
        except Exception as ex:
            errors[lname] = "translator failure: %r" % (ex,)
            lean = '[MCmd.panic "kernel %s: translator failure"]' % lname
        out.append("/-- `%s` in src/%s -/" % (fn, f))
        out.append("def %s %s : List MCmd :=\n  %s\n" % (lname, params, lean))
    for (lname, f, fn, marker, params, env, state, ptr_env, ignore, clonefns) in CLONE_KERNELS:
        try:
            src = strip_comments(open(os.path.join(repo_src, f)).read())
            ast = P(tokenize(find_fn(src, fn, marker))).block()
            em = EmitCmds(env, state, ptr_env, ignore, {}, {})
            em.clonefns = set(clonefns)
            lean = em.cmds(ast)
        except KernelError as ex:
            errors[lname] = str(ex)
            lean = '[MCmd.panic "kernel %s could not be translated: %s"]' % (lname, str(ex).replace('"', "'"))
        except Exception as ex:
            errors[lname] = "translator failure: %r" % (ex,)
            lean = '[MCmd.panic "kernel %s: translator failure"]' % lname
        out.append("/-- `%s` in src/%s -/" % (fn, f))
        out.append("def %s %s : List MCmd :=\n  %s\n" % (lname, params, lean))
    # the erased destructor: the closure stored in `drop_fn` by `AnyVecRaw::new`
    try:
        src = strip_comments(open(os.path.join(repo_src, "any_vec_raw.rs")).read())
        body = find_fn(src, "new", None)
        m = re.search(r"drop_fn\s*:\s*if\s*!\s*mem::needs_drop::<T>\(\)\s*\{\s*None\s*\}\s*else\s*\{\s*Some\(\|\s*mut\s+ptr\s*:\s*\*mut\s+u8\s*,\s*len\s*:\s*usize\s*\|\s*\{", body)
        if not m: raise KernelError("drop_fn is not `if !mem::needs_drop::<T>() { None } else { Some(|mut ptr: *mut u8, len: usize| {..}) }`")
        i = m.end() - 1; depth = 0; k = i
        while k < len(body):
            if body[k] == "{": depth += 1
            elif body[k] == "}":
                depth -= 1
                if depth == 0: break
            k += 1
        closure = body[i + 1:k]
        ast = P(tokenize(closure)).block()
        em = EmitCmds({"len": "len"}, {}, {"ptr": ("0", False)}, [], {}, {})
        lean = em.cmds(ast)
    except KernelError as ex:
        errors["drop_fn_cmds"] = str(ex)
        lean = '[MCmd.panic "kernel drop_fn_cmds could not be translated: %s"]' % str(ex).replace('"', "'")
    except Exception as ex:
        errors["drop_fn_cmds"] = "translator failure: %r" % (ex,)
        lean = '[MCmd.panic "kernel drop_fn_cmds: translator failure"]'
    # constructors that copy the per-type facts (type id, destructor, clone function) from an existing vector
    for (lname, f, fn, marker) in [("raw_clone_empty_in_fields", "any_vec_raw.rs", "clone_empty_in", None),
                                   ("raw_clone_empty_fields", "any_vec_raw.rs", "clone_empty", None),
                                   ("anyvec_clone_empty_fields", "any_vec.rs", "clone_empty", None),
                                   ("anyvec_clone_empty_in_fields", "any_vec.rs", "clone_empty_in", None),
                                   ("anyvec_clone_fields", "any_vec.rs", "clone", "Clone for AnyVec<Traits, M>")]:
        try:
            src = strip_comments(open(os.path.join(repo_src, f)).read())
            ast = P(tokenize(find_fn(src, fn, marker))).block()
            rows = []
            for st in ast[:-1]:
                if st[0] != "let": raise KernelError("unexpected statement before the result")
                rows.append(("let " + st[1], unparse(st[2])))
            last = ast[-1]
            if last[0] != "tail": raise KernelError("function does not end in an expression")
            if last[1][0] == "struct":
                for k_, v_ in last[1][2].items(): rows.append((k_, unparse(v_)))
            else: rows.append(("=", unparse(last[1])))
            if any("<" in v_ and v_.endswith(">") and v_.startswith("<") for _, v_ in rows): raise KernelError("unsupported field expression")
            tlean = "[" + ", ".join('("%s", "%s")' % (a_, b_.replace('"', "'")) for a_, b_ in rows) + "]"
        except KernelError as ex:
            errors[lname] = str(ex); tlean = '[("error", "%s")]' % str(ex).replace('"', "'")
        except Exception as ex:
            errors[lname] = "translator failure: %r" % (ex,); tlean = '[("error", "translator failure")]'
        out.append("/-- `%s` in src/%s: where every field of the result comes from -/" % (fn, f))
        out.append("def %s : List (String × String) :=\n  %s\n" % (lname, tlean))
    out.append("/-- the closure `AnyVecRaw::new` stores in `drop_fn` when the type needs drop (src/any_vec_raw.rs) -/")
    out.append("def drop_fn_cmds (len : Nat) : List MCmd :=\n  %s\n" % lean)
    return "\n".join(out), errors


# ------------------------------------------------------------------------------------------ view kernels
class EmitView(Emit):
    """`from_raw_parts(_mut)(ptr, count)` at the end of a view function -> (byte offset of ptr from the storage pointer, count).
    Pointers are (byte offset term, typed): `mem.as_ptr()` is offset 0, an untyped `.add(b)` adds b bytes, a typed one b * size."""
    def __init__(self, env, helpers):
        Emit.__init__(self, env, {}, {})
        self.helpers = helpers
    def nat(self, e):
        pre = []; v = self.pure(e, pre)
        if pre: raise KernelError("checked arithmetic in a view")
        return par(v)
    def bptr(self, e):
        k = e[0]
        if k == "block" and len(e[1]) == 1 and e[1][0][0] == "tail": return self.bptr(e[1][0][1])
        if k == "cast":
            p = self.bptr(e[1]); ty = e[2].replace(" ", "")
            if not ty.startswith("*"): raise KernelError("pointer cast to %s" % e[2])
            return (p[0], not (ty.endswith("u8") or ty.endswith("MaybeUninit<u8>")))
        if k == "call":
            recv, m, args = e[1], e[2], e[3]
            key = self.path(e)
            if key in self.helpers:
                body = self.helpers[key]
                if len(body) == 1 and body[0][0] == "tail": return self.bptr(body[0][1])
                raise KernelError("helper %s is not a single expression" % key)
            if m in ("as_ptr", "as_mut_ptr") and not args and (self.path(recv) or "").endswith(".mem"): return ("0", False)
            if m in ("as_ptr", "as_mut_ptr") and not args and recv[0] == "call" and recv[2] in ("this", "this_mut") and False: pass
            if m in ("as_ptr", "as_mut_ptr") and not args and recv[0] == "field" and recv[2] == "mem": return ("0", False)
            p = self.bptr(recv)
            if m == "cast" and not args: return (p[0], (e[4] or "").replace(" ", "") != "u8")
            if m == "add" and len(args) == 1:
                n = self.nat(args[0])
                return ("(%s + %s)" % (p[0], n) if not p[1] else "(%s + %s * size)" % (p[0], n), p[1])
            raise KernelError("unsupported pointer method .%s()" % m)
        raise KernelError("not a pointer expression: %s" % unparse(e))
    def view(self, stmts):
        if len(stmts) != 1 or stmts[0][0] != "tail": raise KernelError("view function is not a single expression")
        e = stmts[0][1]
        while e[0] == "block" and len(e[1]) == 1 and e[1][0][0] == "tail": e = e[1][0][1]
        if e[0] != "fcall" or e[1].split("::")[-1] not in ("from_raw_parts", "from_raw_parts_mut") or len(e[2]) != 2:
            raise KernelError("view function does not end in from_raw_parts(ptr, count)")
        p = self.bptr(e[2][0])
        return "(%s, %s)" % (p[0], self.nat(e[2][1]))

VIEW_ENV = {"self.len()": "len", "self.capacity()": "cap", "self.element_layout().size()": "size"}
VIEWS = [
    # (lean name, file, fn, helper fns)
    ("as_bytes_view", "any_vec.rs", "as_bytes", []),
    ("as_bytes_mut_view", "any_vec.rs", "as_bytes_mut", []),
    ("spare_bytes_mut_view", "any_vec.rs", "spare_bytes_mut", []),
    ("as_slice_view", "any_vec_typed.rs", "as_slice", ["as_ptr", "as_mut_ptr"]),
    ("as_mut_slice_view", "any_vec_typed.rs", "as_mut_slice", ["as_ptr", "as_mut_ptr"]),
    ("spare_capacity_mut_view", "any_vec_typed.rs", "spare_capacity_mut", ["as_ptr", "as_mut_ptr"]),
]
def translate_views(repo_src):
    out = []; errors = {}
    for (lname, f, fn, hs) in VIEWS:
        try:
            src = strip_comments(open(os.path.join(repo_src, f)).read())
            helpers = {"self.%s()" % h: P(tokenize(find_fn(src, h, None))).block() for h in hs}
            ast = P(tokenize(find_fn(src, fn, None))).block()
            lean = EmitView(VIEW_ENV, helpers).view(ast)
        except KernelError as ex:
            errors[lname] = str(ex); lean = "(USIZE_MAX, USIZE_MAX) -- could not be translated: %s" % str(ex)
        except Exception as ex:
            errors[lname] = "translator failure: %r" % (ex,); lean = "(USIZE_MAX, USIZE_MAX) -- translator failure"
        out.append("/-- `%s` in src/%s: (byte offset from the storage pointer, length in bytes or elements) -/" % (fn, f))
        out.append("def %s (len cap size : Nat) : Nat × Nat :=\n  %s\n" % (lname, lean))
    return "\n".join(out), errors


# ------------------------------------------------------------------------------------------ call traces of the API wrappers
class EmitTrace(Emit):
    """a thin API function -> the list of calls it makes, in evaluation order (arguments before the call, receiver
    before the method), each with those of its arguments that are integers of this kernel; integer conditions stay `if`s"""
    SKIP = {"AnyVecPtr::from", "AnyVecRawPtr::from", "NonNull::from", "PhantomData"}
    def __init__(self, env, conds=None):
        Emit.__init__(self, env, {}, {})
        self.conds = conds or {}          # rust path of a bool-valued call -> lean Bool term
    def nat_or_fail(self, e):
        v = self.try_nat(e)
        if v is None: raise KernelError("not an integer expression: %s" % unparse(e))
        return v
    def try_nat(self, e):
        def closed(x):
            if not isinstance(x, tuple): return True
            if x and x[0] in ("var", "field", "call") and self.path(x) in self.env: return True
            if x and x[0] == "var": return x[1] in self.env or x[1].startswith("usize")
            if x and x[0] in ("call", "fcall", "closure", "struct", "block", "if", "match"): return False
            return all(closed(y) for y in x[1:])
        if not closed(e): return None
        try:
            pre = []; v = self.pure(e, pre)
            return None if pre else par(v)
        except KernelError:
            return None
    def is_typeid(self, e):
        """an expression that is the run-time type id of the value / vector, or `TypeId::of::<T>()` of the requested type"""
        if e[0] == "call" and e[2] in ("value_typeid", "element_typeid") and not e[3] and e[1] == ("var", "self"): return "own"
        if e[0] == "fcall" and e[1] == "TypeId::of" and not e[2] and (e[3] or "").replace(" ", "") == "T": return "asked"
        return None
    def cond(self, e, pre):
        key = self.path(e) if e[0] in ("call", "field", "var") else None
        if key in self.conds: return self.conds[key]
        if e[0] == "fcall" and e[1] == "Unknown::is" and not e[2]:
            return "(!otherKnown)" if "Other" in (e[3] or "") else "(!known)"
        if e[0] == "not" and e[1][0] == "fcall" and e[1][1] == "Unknown::is" and not e[1][2]:
            return "otherKnown" if "Other" in (e[1][3] or "") else "known"
        if e[0] == "bin" and e[1] in ("==", "!="):
            a, b = self.is_typeid(e[2]), self.is_typeid(e[3])
            if a and b and a != b: return "sameType" if e[1] == "==" else "(!sameType)"
            if a or b: raise KernelError("type-id comparison is not `own type id` against `TypeId::of::<T>()`")
        return Emit.cond(self, e, pre)
    def calls(self, e, out):
        """append the calls made while evaluating expression `e` to `out` (list of lean TStep terms or nested conditionals)"""
        k = e[0]
        if k in ("num", "str", "var", "field"):
            if k == "var" and e[1] == "None": out.append("TStep.retNone")
            return
        if k in ("deref", "not", "cast"): return self.calls(e[1], out)
        if k == "block": return self.stmts_t(e[1], out)
        if k == "closure":
            inner = []; self.calls(e[2], inner)
            out.append("TStep.closure [%s]" % ", ".join(inner)); return
        if k == "bin":
            self.calls(e[2], out); self.calls(e[3], out); return
        if k == "fcall":
            name = e[1]
            if name == "Some":
                for a in e[2]: self.calls(a, out)
                out.append("TStep.retSome"); return
            if name == "panic!" and len(e[2]) == 1 and e[2][0][0] == "str":
                out.append("TStep.panic %s" % e[2][0][1]); return
            for a in e[2]: self.calls(a, out)
            short = "::".join(name.split("::")[-2:])
            if short in self.SKIP or name in self.SKIP: return
            ints = [x for x in (self.try_nat(a) for a in e[2]) if x is not None]
            out.append('TStep.call "%s" [%s]' % (short, ", ".join(ints))); return
        if k == "call":
            key = self.path(e)
            if key in self.env: return
            self.calls(e[1], out)
            for a in e[3]: self.calls(a, out)
            if e[2] in ("this", "this_mut", "into_iter") and not e[3]: return
            if e[2] == "unwrap" and not e[3]: out.append("TStep.unwrap"); return
            ints = [x for x in (self.try_nat(a) for a in e[3]) if x is not None]
            out.append('TStep.call "%s" [%s]' % (e[2], ", ".join(ints))); return
        if k == "if":
            c = self.cond(e[1], [])
            a, b = [], []
            self.stmts_t(e[2], a); self.stmts_t(e[3] or [], b)
            out.append("TStep.branch %s [%s] [%s]" % (c, ", ".join(a), ", ".join(b))); return
        if k == "struct":
            for v in e[2].values(): self.calls(v, out)
            return
        raise KernelError("unsupported expression in an API wrapper: %s" % k)
    def stmts_t(self, stmts, out):
        for s in stmts:
            if s[0] == "let":
                self.calls(s[2], out)
                v = self.try_nat(s[2])
                if v is not None and s[2][0] in ("num", "bin", "var", "field", "call") and self.path(s[2]) in self.env: self.env[s[1]] = v
            elif s[0] == "letstruct":
                self.calls(s[3], out)
                for f in s[2]: self.env[f] = {"end": "end_"}.get(f, f)
            elif s[0] in ("expr", "tail"): self.calls(s[1], out)
            elif s[0] == "assert":
                c = self.cond(s[1], [])
                msg = s[2] if s[2] is not None else '"assertion failed: %s"' % unparse(s[1])
                out.append("TStep.branch %s [] [TStep.panic %s]" % (c, msg))
            elif s[0] == "return": out.append("TStep.ret")
            else: raise KernelError("unsupported statement in an API wrapper: %s" % s[0])

TSTEP_DECL = """/-- one call made by a thin API function, with its integer arguments; `branch c a b` is an `if` on integers -/
inductive TStep where
  | call (name : String) (args : List Nat)
  | closure (body : List TStep)
  | branch (c : Bool) (thenSteps elseSteps : List TStep)
  | retSome | retNone | unwrap | ret
  | panic (msg : String)
"""
ANY = {"self.len()": "len", "self.raw.len": "len", "self.len": "len", "index": "index", "self.this().len": "len",
       "additional": "index", "min_capacity": "index", "new_len": "index", "capacity": "index"}
ANYC = {"self.is_empty()": "(len == 0)"}
TRACES = [
    # (lean name, file, fn, marker, params)
    ("raw_index_check", "any_vec_raw.rs", "index_check", None, "(len index : Nat)"),
    ("raw_type_check", "any_vec_raw.rs", "type_check", None, "(len index : Nat)"),
    ("anyvec_push", "any_vec.rs", "push", None, "(len index : Nat)"),
    ("anyvec_insert", "any_vec.rs", "insert", None, "(len index : Nat)"),
    ("anyvec_pop", "any_vec.rs", "pop", None, "(len index : Nat)"),
    ("anyvec_remove", "any_vec.rs", "remove", None, "(len index : Nat)"),
    ("anyvec_swap_remove", "any_vec.rs", "swap_remove", None, "(len index : Nat)"),
    ("anyvec_drain", "any_vec.rs", "drain", None, "(len index start end_ : Nat)"),
    ("anyvec_splice", "any_vec.rs", "splice", None, "(len index start end_ : Nat)"),
    ("anyvec_clear", "any_vec.rs", "clear", None, "(len index : Nat)"),
    ("anyvec_get", "any_vec.rs", "get", None, "(len index : Nat)"),
    ("anyvec_get_mut", "any_vec.rs", "get_mut", None, "(len index : Nat)"),
    ("anyvec_at", "any_vec.rs", "at", None, "(len index : Nat)"),
    ("anyvec_at_mut", "any_vec.rs", "at_mut", None, "(len index : Nat)"),
    ("anyvec_iter", "any_vec.rs", "iter", None, "(len index : Nat)"),
    ("anyvec_iter_mut", "any_vec.rs", "iter_mut", None, "(len index : Nat)"),
    ("typed_push", "any_vec_typed.rs", "push", None, "(len index : Nat)"),
    ("typed_insert", "any_vec_typed.rs", "insert", None, "(len index : Nat)"),
    ("typed_pop", "any_vec_typed.rs", "pop", None, "(len index : Nat)"),
    ("typed_remove", "any_vec_typed.rs", "remove", None, "(len index : Nat)"),
    ("typed_swap_remove", "any_vec_typed.rs", "swap_remove", None, "(len index : Nat)"),
    ("typed_drain", "any_vec_typed.rs", "drain", None, "(len index start end_ : Nat)"),
    ("typed_splice", "any_vec_typed.rs", "splice", None, "(len index start end_ : Nat)"),
    ("typed_clear", "any_vec_typed.rs", "clear", None, "(len index : Nat)"),
    ("typed_get", "any_vec_typed.rs", "get", None, "(len index : Nat)"),
    ("typed_get_mut", "any_vec_typed.rs", "get_mut", None, "(len index : Nat)"),
    ("typed_at", "any_vec_typed.rs", "at", None, "(len index : Nat)"),
    ("typed_at_mut", "any_vec_typed.rs", "at_mut", None, "(len index : Nat)"),
    ("typed_iter", "any_vec_typed.rs", "iter", None, "(len index : Nat)"),
    ("typed_len", "any_vec_typed.rs", "len", None, "(len index : Nat)"),
    ("typed_is_empty", "any_vec_typed.rs", "is_empty", None, "(len index : Nat)"),
    ("anyvec_len", "any_vec.rs", "len", None, "(len index : Nat)"),
    ("anyvec_is_empty", "any_vec.rs", "is_empty", None, "(len index : Nat)"),
    # delegations: capacity calls, unchecked accessors, construction, reports
    ("anyvec_reserve", "any_vec.rs", "reserve", None, "(len index : Nat)"),
    ("anyvec_reserve_exact", "any_vec.rs", "reserve_exact", None, "(len index : Nat)"),
    ("anyvec_shrink_to_fit", "any_vec.rs", "shrink_to_fit", None, "(len index : Nat)"),
    ("anyvec_shrink_to", "any_vec.rs", "shrink_to", None, "(len index : Nat)"),
    ("anyvec_set_len", "any_vec.rs", "set_len", None, "(len index : Nat)"),
    ("anyvec_capacity", "any_vec.rs", "capacity", None, "(len index : Nat)"),
    ("anyvec_insert_unchecked", "any_vec.rs", "insert_unchecked", None, "(len index : Nat)"),
    ("anyvec_push_unchecked", "any_vec.rs", "push_unchecked", None, "(len index : Nat)"),
    ("anyvec_get_unchecked", "any_vec.rs", "get_unchecked", None, "(len index : Nat)"),
    ("anyvec_get_unchecked_mut", "any_vec.rs", "get_unchecked_mut", None, "(len index : Nat)"),
    ("anyvec_new", "any_vec.rs", "new", None, "(len index : Nat)"),
    ("anyvec_new_in", "any_vec.rs", "new_in", None, "(len index : Nat)"),
    ("anyvec_with_capacity", "any_vec.rs", "with_capacity", None, "(len index : Nat)"),
    ("anyvec_with_capacity_in", "any_vec.rs", "with_capacity_in", None, "(len index : Nat)"),
    ("anyvec_build", "any_vec.rs", "build", None, "(len index : Nat)"),
    ("anyvec_element_typeid", "any_vec.rs", "element_typeid", None, "(len index : Nat)"),
    ("anyvec_element_layout", "any_vec.rs", "element_layout", None, "(len index : Nat)"),
    ("anyvec_element_drop", "any_vec.rs", "element_drop", None, "(len index : Nat)"),
    ("anyvec_element_clone", "any_vec.rs", "element_clone", None, "(len index : Nat)"),
    ("raw_capacity", "any_vec_raw.rs", "capacity", None, "(len index : Nat)"),
    ("raw_element_layout", "any_vec_raw.rs", "element_layout", None, "(len index : Nat)"),
    ("raw_drop", "any_vec_raw.rs", "drop", None, "(len index : Nat)"),
    ("typed_reserve", "any_vec_typed.rs", "reserve", None, "(len index : Nat)"),
    ("typed_reserve_exact", "any_vec_typed.rs", "reserve_exact", None, "(len index : Nat)"),
    ("typed_shrink_to_fit", "any_vec_typed.rs", "shrink_to_fit", None, "(len index : Nat)"),
    ("typed_shrink_to", "any_vec_typed.rs", "shrink_to", None, "(len index : Nat)"),
    ("typed_set_len", "any_vec_typed.rs", "set_len", None, "(len index : Nat)"),
    ("typed_capacity", "any_vec_typed.rs", "capacity", None, "(len index : Nat)"),
    ("typed_iter_mut", "any_vec_typed.rs", "iter_mut", None, "(len index : Nat)"),
    ("typed_get_unchecked", "any_vec_typed.rs", "get_unchecked", None, "(len index : Nat)"),
    ("typed_get_unchecked_mut", "any_vec_typed.rs", "get_unchecked_mut", None, "(len index : Nat)"),
    ("temp_bytes_len", "ops/temp.rs", "bytes_len", None, "(known : Bool)"),
    ("temp_size", "ops/temp.rs", "size", None, "(known : Bool)"),
    ("temp_as_bytes_ptr", "ops/temp.rs", "as_bytes_ptr", None, "(known : Bool)"),
    ("temp_clone_into", "ops/temp.rs", "clone_into", None, "(known : Bool)"),
    ("element_size", "element.rs", "size", None, "(known : Bool)"),
    ("element_value_typeid", "element.rs", "value_typeid", None, "(known : Bool)"),
    ("element_clone_into", "element.rs", "clone_into", None, "(known : Bool)"),
    ("opsiter_next", "ops/iter.rs", "next", None, "(known : Bool)"),
    ("opsiter_next_back", "ops/iter.rs", "next_back", None, "(known : Bool)"),
    ("opsiter_len", "ops/iter.rs", "len", None, "(known : Bool)"),
    ("opsiter_size_hint", "ops/iter.rs", "size_hint", None, "(known : Bool)"),
    ("mem_expand_default", "mem/mod.rs", "expand", None, "(known : Bool)"),
    ("mem_expand_exact_default", "mem/mod.rs", "expand_exact", None, "(known : Bool)"),
    ("heap_build_with_size", "mem/heap.rs", "build_with_size", None, "(len index : Nat)"),
    ("lib_copy_nonoverlapping_value", "lib.rs", "copy_nonoverlapping_value", None, "(known : Bool)"),
    ("ptr_element_size", "any_vec_ptr.rs", "element_size", None, "(known : Bool)"),
    ("ptr_element_typeid", "any_vec_ptr.rs", "element_typeid", None, "(known : Bool)"),
    # values: how each kind moves into a slot, and the checked downcasts
    ("lazy_move_into", "any_value/lazy_clone.rs", "move_into", None, "(sameType : Bool)"),
    ("lazy_clone_into", "any_value/lazy_clone.rs", "clone_into", None, "(sameType : Bool)"),
    ("value_move_into", "any_value/mod.rs", "move_into", None, "(sameType : Bool)"),
    ("temp_move_into", "ops/temp.rs", "move_into", None, "(sameType : Bool)"),
    ("value_downcast_ref", "any_value/mod.rs", "downcast_ref", None, "(sameType : Bool)"),
    ("value_downcast", "any_value/mod.rs", "downcast", None, "(sameType : Bool)"),
    ("value_downcast_mut", "any_value/mod.rs", "downcast_mut", None, "(sameType : Bool)"),
    ("value_downcast_unchecked", "any_value/mod.rs", "downcast_unchecked", None, "(sameType : Bool)"),
    ("value_swap", "any_value/mod.rs", "swap", None, "(sameType : Bool)"),
    ("value_swap_unchecked", "any_value/mod.rs", "swap_unchecked", None, "(known otherKnown : Bool)"),
    ("element_downcast_ref", "element.rs", "downcast_ref", None, "(sameType : Bool)"),
    ("element_downcast_mut", "element.rs", "downcast_mut", None, "(sameType : Bool)"),
    ("anyvec_downcast_ref", "any_vec.rs", "downcast_ref", None, "(sameType : Bool)"),
    ("anyvec_downcast_mut", "any_vec.rs", "downcast_mut", None, "(sameType : Bool)"),
]
def translate_traces(repo_src):
    out = [TSTEP_DECL]; errors = {}
    for (lname, f, fn, marker, params) in TRACES:
        try:
            src = strip_comments(open(os.path.join(repo_src, f)).read())
            ast = P(tokenize(find_fn(src, fn, marker))).block()
            env = dict(ANY)
            value_fn = lname in ("anyvec_len", "typed_len", "anyvec_is_empty", "typed_is_empty")
            if value_fn: env = {"self.raw.len": "len", "self.this().len": "len"}
            em = EmitTrace(env, ANYC)
            steps = []
            if value_fn:
                # value functions: their result as a term
                if len(ast) != 1 or ast[0][0] != "tail": raise KernelError("not a single expression")
                e = ast[0][1]
                if fn == "len":
                    lean = "[TStep.call \"=\" [%s]]" % em.nat_or_fail(e)
                else:
                    if not (e[0] == "bin" and e[1] == "==" and e[3] == ("num", 0) and e[2][0] == "call" and e[2][2] == "len"):
                        raise KernelError("is_empty is not `self.len() == 0`")
                    lean = "[TStep.call \"len\" [], TStep.call \"== 0\" []]"
            elif len(ast) == 1 and ast[0][0] == "tail" and ast[0][1][0] in ("var", "field") :
                lean = '[TStep.call "= %s" []]' % unparse(ast[0][1])       # a plain field read
            else:
                em.stmts_t(ast, steps)
                lean = "[" + ", ".join(steps) + "]"
        except KernelError as ex:
            errors[lname + "_trace"] = str(ex); lean = '[TStep.panic "could not be translated: %s"]' % str(ex).replace('"', "'")
        except Exception as ex:
            errors[lname + "_trace"] = "translator failure: %r" % (ex,); lean = '[TStep.panic "translator failure"]'
        out.append("/-- `%s` in src/%s -/" % (fn, f))
        out.append("def %s_trace %s : List TStep :=\n  %s\n" % (lname, params, lean))
    return "\n".join(out), errors


# ------------------------------------------------------------------------------------------ allocator protocol of HeapMem::resize
class EmitAlloc(Emit):
    """`HeapMem::resize` -> the allocator calls it makes (with byte sizes and alignment), the layout validity check and the
    size assignment, in evaluation order, as `List ACmd` depending on the integers involved. Allocation failure
    (`handle_alloc_error`) is not modelled."""
    IGNORED_F = {"dangling", "NonNull::new", "handle_alloc_error"}
    def __init__(self, env):
        Emit.__init__(self, env, {}, {})
        self.layouts = {}
    def nat_pre(self, e):
        pre = []; v = self.pure(e, pre)
        for b in pre:
            if not re.fullmatch(r"let t\d+ ← checked(Add|Mul) .*", b): raise KernelError("unsupported computation in resize")
        return pre, par(v)
    def wrap_pre(self, pre, body):
        for b in reversed(pre):
            m = re.fullmatch(r"let (t\d+) ← (.*)", b)
            body = "(match %s with\n  | .ok %s => %s\n  | .panic m => [ACmd.panic m]\n  | .ub m => [ACmd.panic m])" % (m.group(2), m.group(1), body)
        return body
    def layout_of(self, e):
        if e[0] == "var" and e[1] in self.layouts: return self.layouts[e[1]]
        raise KernelError("not a known layout: %s" % unparse(e))
    def ev(self, e, k):
        """effects of evaluating `e`, then `k()`"""
        t = e[0]
        if t in ("num", "str", "var", "field", "closure"): return k()
        if t in ("deref", "not", "cast"): return self.ev(e[1], k)
        if t == "bin": return self.ev(e[2], lambda: self.ev(e[3], k))
        if t == "block": return self.sts(list(e[1]), k)
        if t == "if":
            c = self.cond(e[1], [])
            return "(if %s then\n  %s\n  else\n  %s)" % (c, self.sts(list(e[2]), k), self.sts(list(e[3] or []), k))
        if t == "fcall":
            name = e[1]; short = name.split("::")[-1]; args = e[2]
            def after():
                if name in self.IGNORED_F or short in self.IGNORED_F: return k()
                if short == "dealloc" and len(args) == 2:
                    b, a = self.layout_of(args[1]); return "ACmd.dealloc %s %s ::\n  %s" % (b, a, k())
                if short == "alloc" and len(args) == 1:
                    b, a = self.layout_of(args[0]); return "ACmd.alloc %s %s ::\n  %s" % (b, a, k())
                if short == "realloc" and len(args) == 3:
                    b, a = self.layout_of(args[1])
                    pre, n = self.nat_pre(args[2])
                    if pre: raise KernelError("checked arithmetic in a realloc argument")
                    return "ACmd.realloc %s %s %s ::\n  %s" % (b, a, n, k())
                raise KernelError("unsupported call %s() in resize" % name)
            return self.evs(list(args), after)
        if t == "call":
            recv, m, args = e[1], e[2], e[3]
            key = self.path(e)
            if key in self.env: return k()
            if m in ("as_ptr", "as_mut_ptr", "unwrap_or_else", "size", "align"): return self.ev(recv, lambda: self.evs([a for a in args if a[0] != "closure"], k))
            raise KernelError("unsupported method .%s() in resize" % m)
        raise KernelError("unsupported expression in resize: %s" % t)
    def evs(self, es, k):
        if not es: return k()
        return self.ev(es[0], lambda: self.evs(es[1:], k))
    def sts(self, stmts, k):
        if not stmts: return k()
        s, rest = stmts[0], stmts[1:]
        nxt = lambda: self.sts(rest, k)
        if s[0] == "return": return "[]"
        if s[0] == "let":
            name, rhs = s[1], s[2]
            # layouts
            core = rhs
            expect_msg = None
            if core[0] == "call" and core[2] == "expect" and len(core[3]) == 1 and core[3][0][0] == "str" and core[1][0] == "fcall":
                expect_msg = core[3][0][1]; core = core[1]
            if core[0] == "fcall" and core[1].split("::")[-1] in ("from_size_align_unchecked", "from_size_align") and len(core[2]) == 2:
                checked = core[1].split("::")[-1] == "from_size_align"
                if checked != (expect_msg is not None): raise KernelError("layout construction and its error handling do not match")
                pb, b = self.nat_pre(core[2][0]); pa, a = self.nat_pre(core[2][1])
                self.layouts[name] = (b, a)
                body = ("ACmd.layoutCheck %s %s %s ::\n  %s" % (b, a, expect_msg, nxt())) if checked else nxt()
                return self.wrap_pre(pb + pa, body)
            pre, v = self.nat_pre(rhs)
            nm = self.name(name); self.env.pop(name, None)
            return self.wrap_pre(pre, "(let %s := %s;\n  %s)" % (nm, v, nxt()))
        if s[0] == "assign":
            key = self.path(s[1])
            if key == "self.size" and s[2] == "=":
                pre, v = self.nat_pre(s[3])
                return self.wrap_pre(pre, "ACmd.setSize %s ::\n  %s" % (v, nxt()))
            if key == "self.mem" and s[2] == "=": return self.ev(s[3], nxt)
            raise KernelError("assignment to %s in resize" % key)
        if s[0] in ("expr", "tail"): return self.ev(s[1], nxt)
        raise KernelError("unsupported statement in resize: %s" % s[0])

ACMD_DECL = """/-- what `HeapMem::resize` asks of the global allocator and records, in program order -/
inductive ACmd where
  | dealloc (bytes align : Nat)
  | alloc (bytes align : Nat)
  | realloc (oldBytes align newBytes : Nat)
  /-- `Layout::from_size_align(bytes, align).expect(msg)` -/
  | layoutCheck (bytes align : Nat) (msg : String)
  /-- `self.size = n` -/
  | setSize (n : Nat)
  | panic (msg : String)
  deriving Repr, DecidableEq
"""
def translate_alloc(repo_src):
    out = [ACMD_DECL]; errors = {}
    try:
        src = strip_comments(open(os.path.join(repo_src, "mem/heap.rs")).read())
        ast = P(tokenize(find_fn(src, "resize", "impl MemResizable for HeapMem"))).block()
        em = EmitAlloc({"self.size": "size_", "new_size": "new_size", "self.element_layout.size()": "esize", "self.element_layout.align()": "ealign"})
        lean = em.sts(ast, lambda: "[]")
    except KernelError as ex:
        errors["heap_resize_cmds"] = str(ex); lean = '[ACmd.panic "could not be translated: %s"]' % str(ex).replace('"', "'")
    except Exception as ex:
        errors["heap_resize_cmds"] = "translator failure: %r" % (ex,); lean = '[ACmd.panic "translator failure"]'
    out.append("/-- `resize` in src/mem/heap.rs -/")
    out.append("def heap_resize_cmds (size_ esize ealign new_size : Nat) : List ACmd :=\n  %s\n" % lean)
    # `impl Drop for HeapMem`
    try:
        ast = P(tokenize(find_fn(src, "drop", "impl Drop for HeapMem"))).block()
        ok = (len(ast) == 1 and ast[0][0] in ("expr", "tail") and ast[0][1][0] == "call" and ast[0][1][2] == "resize"
              and ast[0][1][1] == ("var", "self") and ast[0][1][3] == [("num", 0)])
        if not ok: raise KernelError("HeapMem::drop is not `self.resize(0)`")
        lean = "0"
    except KernelError as ex:
        errors["heap_drop_resize"] = str(ex); lean = "USIZE_MAX"
    except Exception as ex:
        errors["heap_drop_resize"] = "translator failure: %r" % (ex,); lean = "USIZE_MAX"
    out.append("/-- `impl Drop for HeapMem`: the size it resizes to -/")
    out.append("def heap_drop_resize : Nat := %s\n" % lean)
    return "\n".join(out), errors


# ------------------------------------------------------------------------------------------ lexical field tables, layout facts
def lexical_fields(body):
    """a function body that is `let ..;`* followed by one struct literal -> [(name, normalised source text)]: the lets and
    the fields of the literal (nested literals are flattened with dotted names); whitespace- and comment-insensitive"""
    toks = [t[1] for t in tokenize(body)]
    rows = []; i = 0
    def join(ts):
        out = ""
        for t in ts:
            if out and (out[-1].isalnum() or out[-1] == "_") and (t[0].isalnum() or t[0] == "_"): out += " "
            out += t
        return out
    # leading lets
    while i < len(toks) and toks[i] == "let":
        j = i; d = 0
        while j < len(toks):
            if toks[j] in "({[": d += 1
            elif toks[j] in ")}]": d -= 1
            elif toks[j] == ";" and d == 0: break
            j += 1
        seg = toks[i + 1:j]; eq = seg.index("=")
        rows.append(("let " + join(seg[:eq]), join(seg[eq + 1:]))); i = j + 1
    def literal(i, prefix):
        # toks[i] is the literal's name, toks[i+1] == "{"
        assert toks[i + 1] == "{"
        j = i + 2
        while toks[j] != "}":
            name = toks[j]
            if toks[j + 1] == ":":
                k = j + 2; d = 0; start = k
                while not (d == 0 and toks[k] in (",", "}")):
                    if toks[k] in "({[": d += 1
                    elif toks[k] in ")}]": d -= 1
                    k += 1
                val = toks[start:k]
                if len(val) >= 2 and val[1] == "{" and val[-1] == "}" and val[0][0].isupper():
                    literal(start, prefix + name + ".")
                else: rows.append((prefix + name, join(val)))
                j = k
            else:
                rows.append((prefix + name, name)); j += 1
            if toks[j] == ",": j += 1
        return j + 1
    if i >= len(toks) or i + 1 >= len(toks) or toks[i + 1] != "{": raise KernelError("function does not end in a struct literal")
    end = literal(i, "")
    if end != len(toks): raise KernelError("statements after the struct literal")
    return rows

LEX_TABLES = [
    ("anyvec_into_raw_parts_fields", "any_vec.rs", "into_raw_parts", None),
    ("anyvec_from_raw_parts_fields", "any_vec.rs", "from_raw_parts", None),
    ("raw_parts_clone_fields", "any_vec.rs", "clone", "Clone for RawParts<M>"),
    ("heapmem_from_raw_parts_fields", "mem/heap.rs", "from_raw_parts", None),
    ("heap_build_fields", "mem/heap.rs", "build", None),
]
_ACC = [("as_ptr", None), ("as_mut_ptr", None), ("element_layout", None), ("size", None)]
MEM_ACCESSOR_TABLES = [
    ("heap_mem_accessors", "mem/heap.rs", "impl Mem for HeapMem", _ACC),
    ("stack_mem_accessors", "mem/stack.rs", "Mem for StackMem<SIZE>", _ACC),
    ("stackn_mem_accessors", "mem/stack_n.rs", "Mem for StackNMem<N, SIZE>", _ACC),
    ("empty_mem_accessors", "mem/empty.rs", "impl Mem for EmptyMem",
     _ACC + [("into_raw_parts", "impl MemRawParts for EmptyMem"), ("from_raw_parts", "impl MemRawParts for EmptyMem"),
             ("build", "impl MemBuilder for Empty")]),
    ("mem_mod_helpers", "mem/mod.rs", "pub trait MemRawParts", [("dangling", None)]),
]
def translate_lex(repo_src):
    out = []; errors = {}
    for (lname, f, fn, marker) in LEX_TABLES:
        try:
            src = strip_comments(open(os.path.join(repo_src, f)).read())
            rows = lexical_fields(find_fn(src, fn, marker))
            lean = "[" + ", ".join('("%s", "%s")' % (a, b.replace('"', "'")) for a, b in rows) + "]"
        except KernelError as ex:
            errors[lname] = str(ex); lean = '[("error", "%s")]' % str(ex).replace('"', "'")
        except Exception as ex:
            errors[lname] = "translator failure: %r" % (ex,); lean = '[("error", "translator failure")]'
        out.append("/-- `%s` in src/%s: where every field of the result comes from -/" % (fn, f))
        out.append("def %s : List (String × String) :=\n  %s\n" % (lname, lean))
    # HeapMem::into_raw_parts: a tuple
    try:
        src = strip_comments(open(os.path.join(repo_src, "mem/heap.rs")).read())
        toks = [t[1] for t in tokenize(find_fn(src, "into_raw_parts", None))]
        txt = "".join(t if not (t[0].isalnum() and False) else t for t in toks)
        lean = '"%s"' % " ".join(toks).replace('"', "'")
    except Exception as ex:
        errors["heapmem_into_raw_parts_text"] = "translator failure: %r" % (ex,); lean = '"error"'
    out.append("/-- `into_raw_parts` in src/mem/heap.rs, token by token -/")
    out.append("def heapmem_into_raw_parts_text : String :=\n  %s\n" % lean)
    # the storage backends' accessors (`impl Mem for …`): one row per accessor, the body token by token; and the raw-parts
    # functions and `build` of the capacity-less backend
    for (lname, f, marker, fns) in MEM_ACCESSOR_TABLES:
        rows = []
        try:
            src = strip_comments(open(os.path.join(repo_src, f)).read())
            for (fn, mk) in fns:
                toks = [t[1] for t in tokenize(find_fn(src, fn, mk or marker))]
                rows.append((fn, " ".join(toks).replace('"', "'")))
            lean = "[" + ", ".join('("%s", "%s")' % r for r in rows) + "]"
        except KernelError as ex:
            errors[lname] = str(ex); lean = '[("error", "%s")]' % str(ex).replace('"', "'")
        except Exception as ex:
            errors[lname] = "translator failure: %r" % (ex,); lean = '[("error", "translator failure")]'
        out.append("/-- the accessors of `%s` in src/%s, token by token -/" % (marker, f))
        out.append("def %s : List (String × String) :=\n  %s\n" % (lname, lean))
    # alignment of the in-place buffers vs. the largest element alignment they accept
    try:
        vals = {}
        for nm, f, pat in [("stack_mem_align", "mem/stack.rs", r"#\[repr\(C,\s*align\((\d+)\)\)\]\s*pub struct StackMem"),
                           ("stackn_mem_align", "mem/stack_n.rs", r"#\[repr\(C,\s*align\((\d+)\)\)\]\s*pub struct StackNMem"),
                           ("stack_max_align", "mem/mod.rs", r"const STACK_MAX_ALIGN\s*:\s*usize\s*=\s*(\d+)\s*;")]:
            src = strip_comments(open(os.path.join(repo_src, f)).read())
            m = re.search(pat, src)
            if not m:
                errors[nm] = "declaration not found"; vals[nm] = "0"
            else: vals[nm] = m.group(1)
    except Exception as ex:
        errors["stack_mem_align"] = "translator failure: %r" % (ex,); vals = {"stack_mem_align": "0", "stackn_mem_align": "0", "stack_max_align": "0"}
    for nm in ("stack_mem_align", "stackn_mem_align", "stack_max_align"):
        out.append("/-- `repr(align)` of the in-place buffer / `STACK_MAX_ALIGN` (src/mem) -/\ndef %s : Nat := %s\n" % (nm, vals[nm]))
    return "\n".join(out), errors


# ------------------------------------------------------------------------------------------ copy_bytes
class EmitBytes(Emit):
    """`crate::copy_bytes` -> which of its three ways of moving the bytes run, in order (`List BStep`)"""
    def strip(self, e):
        while e[0] == "cast": e = e[1]
        return e
    def cond(self, e, pre):
        if e[0] == "fcall" and e[1] == "cfg!" and e[2] == [("var", "miri")]: return "miri"
        if e[0] == "bin" and e[1] in ("||", "&&"):
            return "(%s %s %s)" % (self.cond(e[2], pre), e[1], self.cond(e[3], pre))
        if e[0] == "bin" and e[1] == "<=" and self.strip(e[2]) == ("var", "dst") and self.strip(e[3]) == ("var", "src"): return "dstLeSrc"
        if e[0] == "bin" and e[1] == ">=" and self.strip(e[2]) == ("var", "src") and self.strip(e[3]) == ("var", "dst"): return "dstLeSrc"
        if any(v in ("src", "dst") for v in find_vars(e)): raise KernelError("unsupported pointer comparison in copy_bytes")
        return Emit.cond(self, e, pre)
    def byte_assign(self, b, var):
        ok = (b[0] == "assign" and b[2] == "=" and b[1][0] == "deref" and b[3][0] == "deref"
              and b[1][1] == ("call", ("var", "dst"), "add", [("var", var)], None)
              and b[3][1] == ("call", ("var", "src"), "add", [("var", var)], None))
        if not ok: raise KernelError("loop body is not `*dst.add(i) = *src.add(i)`")
    def sts(self, stmts, k):
        if not stmts: return k()
        s, rest = stmts[0], stmts[1:]
        nxt = lambda: self.sts(rest, k)
        if s[0] == "return": return "[]"
        if s[0] == "for":
            var, rng, body = s[1], s[2], s[3]
            if len(body) != 1: raise KernelError("byte loop body has %d statements" % len(body))
            self.byte_assign(body[0], var)
            if rng == ("bin", "..", ("num", 0), ("var", "count")): return "BStep.fwdLoop ::\n  %s" % nxt()
            if rng[0] == "call" and rng[2] == "rev" and not rng[3] and rng[1] == ("bin", "..", ("num", 0), ("var", "count")):
                return "BStep.bwdLoop ::\n  %s" % nxt()
            raise KernelError("byte loop is not over 0..count or (0..count).rev()")
        if s[0] in ("expr", "tail"):
            e = s[1]
            if e[0] == "block": return self.sts(list(e[1]) + list(rest), k)
            if e[0] == "if":
                c = self.cond(e[1], [])
                return "(if %s then\n  %s\n  else\n  %s)" % (c, self.sts(list(e[2]) + list(rest), k), self.sts(list(e[3] or []) + list(rest), k))
            if e[0] == "fcall" and e[1] in ("ptr::copy", "core::ptr::copy") and e[2] == [("var", "src"), ("var", "dst"), ("var", "count")]:
                return "BStep.ptrCopy ::\n  %s" % nxt()
            raise KernelError("unsupported statement in copy_bytes: %s" % unparse(e))
        raise KernelError("unsupported statement kind in copy_bytes: %s" % s[0])

def translate_bytes(repo_src):
    out = ["/-- one of the three ways `copy_bytes` moves its bytes -/\ninductive BStep where\n  | ptrCopy | fwdLoop | bwdLoop\n  deriving Repr, DecidableEq\n"]
    errors = {}
    try:
        src = strip_comments(open(os.path.join(repo_src, "lib.rs")).read())
        ast = P(tokenize(find_fn(src, "copy_bytes", None))).block()
        lean = EmitBytes({"count": "count"}, {}, {}).sts(ast, lambda: "[]")
    except KernelError as ex:
        errors["copy_bytes_prog"] = str(ex); lean = "[BStep.bwdLoop, BStep.fwdLoop, BStep.bwdLoop] -- could not be translated: %s" % str(ex)
    except Exception as ex:
        errors["copy_bytes_prog"] = "translator failure: %r" % (ex,); lean = "[BStep.bwdLoop, BStep.fwdLoop, BStep.bwdLoop] -- translator failure"
    out.append("/-- `copy_bytes` in src/lib.rs -/")
    out.append("def copy_bytes_prog (count : Nat) (dstLeSrc miri : Bool) : List BStep :=\n  %s\n" % lean)
    return "\n".join(out), errors


def translate_ptr_at(repo_src):
    """`utils::element_ptr_at` / `element_mut_ptr_at`: the byte offset of element `index` on the erased and on the typed path"""
    out = []; errors = {}
    for lname, fn, rawfn, typedfn in [("element_ptr_at_off", "element_ptr_at", "get_unchecked", "as_ptr"),
                                       ("element_mut_ptr_at_off", "element_mut_ptr_at", "get_unchecked_mut", "as_mut_ptr")]:
        try:
            psrc = strip_comments(open(os.path.join(repo_src, "any_vec_ptr.rs")).read())
            rsrc = strip_comments(open(os.path.join(repo_src, "any_vec_raw.rs")).read())
            tsrc = strip_comments(open(os.path.join(repo_src, "any_vec_typed.rs")).read())
            ast = P(tokenize(find_fn(psrc, fn, None))).block()
            ifs = [st for st in ast if st[0] in ("expr", "tail") and st[1][0] == "if"]
            if len(ifs) != 1 or ast[-1] is not ifs[0]: raise KernelError("%s does not end in the erased/typed `if`" % fn)
            c, a, b = ifs[0][1][1], ifs[0][1][2], ifs[0][1][3]
            if c[0] == "fcall" and c[1] == "Unknown::is": er, ty = a, b
            elif c[0] == "not" and c[1][0] == "fcall" and c[1][1] == "Unknown::is": er, ty = b, a
            else: raise KernelError("condition is not Unknown::is::<Element>()")
            def tail(stmts):
                if len(stmts) != 1 or stmts[0][0] != "tail": raise KernelError("branch is not a single expression")
                return stmts[0][1]
            e = tail(er)
            if not (e[0] == "call" and e[2] == rawfn and e[3] == [("var", "index")]): raise KernelError("erased branch is not any_vec_raw.%s(index)" % rawfn)
            ev = EmitView({"index": "index", "self.element_layout().size()": "size"}, {})
            rb = P(tokenize(find_fn(rsrc, rawfn, None))).block()
            off_e = ev.bptr(tail(rb))
            if off_e[1]: raise KernelError("AnyVecRaw::%s returns a typed pointer" % rawfn)
            t = tail(ty)
            while t[0] == "cast": t = t[1]
            ok = (t[0] == "call" and t[2] == "add" and t[3] == [("var", "index")] and t[1][0] == "call" and t[1][2] == typedfn and not t[1][3]
                  and t[1][1][0] == "fcall" and t[1][1][1].startswith("AnyVecTyped"))
            if not ok: raise KernelError("typed branch is not AnyVecTyped::new(..).%s().add(index)" % typedfn)
            tb = P(tokenize(find_fn(tsrc, typedfn, None))).block()
            base = ev.bptr(tail(tb))
            if not base[1]: raise KernelError("AnyVecTyped::%s is not a typed pointer" % typedfn)
            lean = "(if !known then %s else (%s + index * size))" % (off_e[0], base[0])
        except KernelError as ex:
            errors[lname] = str(ex); lean = "USIZE_MAX -- could not be translated: %s" % str(ex)
        except Exception as ex:
            errors[lname] = "translator failure: %r" % (ex,); lean = "USIZE_MAX -- translator failure"
        out.append("/-- `%s` in src/any_vec_ptr.rs: byte offset of element `index` from the storage pointer -/" % fn)
        out.append("def %s (index size : Nat) (known : Bool) : Nat :=\n  %s\n" % (lname, lean))
    # Iter::new
    try:
        src = strip_comments(open(os.path.join(repo_src, "iter.rs")).read())
        rows = lexical_fields(find_fn(src, "new", None))
        lean = "[" + ", ".join('("%s", "%s")' % (a_, b_) for a_, b_ in rows) + "]"
    except KernelError as ex:
        errors["iter_new_fields"] = str(ex); lean = '[("error", "%s")]' % str(ex).replace('"', "'")
    except Exception as ex:
        errors["iter_new_fields"] = "translator failure: %r" % (ex,); lean = '[("error", "translator failure")]'
    out.append("/-- `Iter::new` in src/iter.rs -/\ndef iter_new_fields : List (String × String) :=\n  %s\n" % lean)
    return "\n".join(out), errors

def translate(repo_src):
    """-> (lean text, {kernel: error}) ; kernels that cannot be translated are emitted as `Res.ub "<why>"` stubs"""
    out = ["/- generated by py/kernelgen.py from /repo/src on every run: the crate's pure integer kernels -/",
           "import AnyVecModel.Model.Ops", "namespace AnyVec.Gen.Kernel", "open AnyVec AnyVec.World", "",
           "/-- what a kernel asks of the storage backend / returns -/",
           "inductive KEff where", "  | none", "  | expand (n : Nat)", "  | expandExact (n : Nat)", "  | resize (n : Nat)",
           "  | ret (v : Nat)", "  | ret2 (a b : Nat)",
           "  /-- a constructor ran: the vector's `len` afterwards and the integer fields of the value it built -/",
           "  | made (len : Nat) (fields : List Nat)",
           "  /-- one `next`/`next_back`: the slot yielded (if any) and the cursor afterwards -/",
           "  | step (slot : Option Nat) (index end_ : Nat)", "  deriving Repr, DecidableEq", ""]
    errors = {}
    for (lname, f, fn, marker, params, env, effects, bounds) in KERNELS:
        try:
            src = strip_comments(open(os.path.join(repo_src, f)).read())
            body = find_fn(src, fn, marker)
            ast = P(tokenize(body)).block()
            em = Emit(env, effects, bounds)
            lean = em.stmts(ast, lambda e: em.wrap(*(lambda pre, v: (pre, "pure (KEff.ret %s)" % par(v)))(*(lambda pre: (pre, em.pure(e, pre)))([]))))
        except KernelError as ex:
            errors[lname] = str(ex)
            lean = 'Res.ub "kernel %s: %s"' % (lname, str(ex).replace('"', "'"))
        except Exception as ex:      # malformed source
            errors[lname] = "translator failure: %r" % (ex,)
            lean = 'Res.ub "kernel %s: translator failure"' % lname
        lean = lean.replace("KEff.expand 1 |>.id", "KEff.expand 1")
        out.append("/-- `%s` in src/%s -/" % (fn, f))
        out.append("def %s %s : Res KEff :=\n  %s\n" % (lname, params, lean))
    for (lname, f, fn, marker, params, env, state, ignore, exports) in CTORS:
        try:
            src = strip_comments(open(os.path.join(repo_src, f)).read())
            body = find_fn(src, fn, marker)
            ast = P(tokenize(body)).block()
            em = Emit(env, {}, {}, state=state, ignore=ignore, exports=exports)
            lean = em.stmts(ast, lambda e: (_ for _ in ()).throw(KernelError("constructor does not end in a struct literal")))
        except KernelError as ex:
            errors[lname] = str(ex)
            lean = 'Res.ub "kernel %s: %s"' % (lname, str(ex).replace('"', "'"))
        except Exception as ex:
            errors[lname] = "translator failure: %r" % (ex,)
            lean = 'Res.ub "kernel %s: translator failure"' % lname
        out.append("/-- `%s` in src/%s -/" % (fn, f))
        out.append("def %s %s : Res KEff :=\n  %s\n" % (lname, params, lean))
    for (lname, f, fn, marker) in [("iter_next", "iter.rs", "next", None), ("iter_next_back", "iter.rs", "next_back", None)]:
        try:
            src = strip_comments(open(os.path.join(repo_src, f)).read())
            body = find_fn(src, fn, marker)
            ast = P(tokenize(body)).block()
            em = Emit({}, {}, {}, state={"self.index": "index", "self.end": "end_"})
            em.pointers = {"element"}
            def tail(e, em=em):
                if e[0] == "var" and e[1] == "None": return "pure (KEff.step none index end_)"
                if e[0] == "fcall" and e[1] == "Some":
                    vs = [v for v in find_vars(e[2]) if v in em.pointers]
                    if len(vs) != 1: raise KernelError("cannot tell which element is yielded")
                    return "pure (KEff.step (some %s) index end_)" % em.name(vs[0])
                raise KernelError("unsupported result of %s" % fn)
            lean = em.stmts(ast, tail)
        except KernelError as ex:
            errors[lname] = str(ex)
            lean = 'Res.ub "kernel %s: %s"' % (lname, str(ex).replace('"', "'"))
        except Exception as ex:
            errors[lname] = "translator failure: %r" % (ex,)
            lean = 'Res.ub "kernel %s: translator failure"' % lname
        out.append("/-- `%s` in src/%s -/" % (fn, f))
        out.append("def %s (index end_ : Nat) : Res KEff :=\n  %s\n" % (lname, lean))
    # `impl Clone for Iter`
    try:
        src = strip_comments(open(os.path.join(repo_src, "iter.rs")).read())
        body = find_fn(src, "clone", None)
        ast = P(tokenize(body)).block()
        em = Emit({"self.index": "index", "self.end": "end_"}, {}, {}, exports=["index", "end"])
        lean = em.stmts(ast, lambda e: (_ for _ in ()).throw(KernelError("clone does not end in a struct literal")))
    except KernelError as ex:
        errors["iter_clone"] = str(ex); lean = 'Res.ub "kernel iter_clone: %s"' % str(ex).replace('"', "'")
    except Exception as ex:
        errors["iter_clone"] = "translator failure: %r" % (ex,); lean = 'Res.ub "kernel iter_clone: translator failure"'
    out.append("/-- `clone` in src/iter.rs -/")
    out.append("def iter_clone (index end_ : Nat) : Res KEff :=\n  %s\n" % lean)
    ctext, cerrs = translate_cmds(repo_src)
    out.append(ctext); errors.update(cerrs)
    vtext, verrs = translate_views(repo_src)
    out.append(vtext); errors.update(verrs)
    ttext, terrs = translate_traces(repo_src)
    out.append(ttext); errors.update(terrs)
    atext, aerrs = translate_alloc(repo_src)
    out.append(atext); errors.update(aerrs)
    ltext, lerrs = translate_lex(repo_src)
    out.append(ltext); errors.update(lerrs)
    btext, berrs = translate_bytes(repo_src)
    out.append(btext); errors.update(berrs)
    ptext, perrs = translate_ptr_at(repo_src)
    out.append(ptext); errors.update(perrs)
    out.append("end AnyVec.Gen.Kernel\n")
    return "\n".join(out), errors

if __name__ == "__main__":
    import sys
    txt, errs = translate(sys.argv[1] if len(sys.argv) > 1 else "/repo/src")
    print(txt); print(errs, file=sys.stderr)
