"""Script generators. A case is (name, size, align, drop, [lines]); every random choice comes from
one seeded PRNG."""
import random

LAYOUTS = [(0,1,1),(0,1,0),(1,1,1),(1,1,0),(2,2,1),(2,1,0),(3,1,1),(3,1,0),(8,8,1),(8,8,0),(8,4,1),
           (12,4,1),(12,4,0),(16,16,1),(16,8,0),(24,8,1),(24,8,0),(64,64,1),(160,32,1),(160,32,0)]
CORE_LAYOUT = (8, 8, 1)
CORE_KINDS = [("heap","clone"),("heap","none"),("stack:48","clone"),("stack:512","clone"),
              ("stackn:2:48","clone"),("stackn:3:512","clone"),("reloc","clone"),("reloc","none"),("empty","clone")]
EXTRA_KINDS = [("heap","send"),("heap","sync"),("heap","send+sync"),("heap","clone+send"),("heap","clone+sync"),
               ("heap","clone+send+sync"),("stack:15","clone"),("stack:16","clone"),("stack:17","clone"),
               ("stackn:2:15","clone"),("stackn:2:16","clone"),("stackn:2:17","clone")]

def kind_cap(bk, size):
    """capacity of a fixed backend for this element size; None = resizable; -1 = build panics"""
    if bk in ("heap", "reloc"): return None
    if bk == "empty": return 0
    p = bk.split(":")
    if p[0] == "stack": return (2**64 - 1) if size == 0 else int(p[1]) // size
    n, b = int(p[1]), int(p[2])
    return n if n * size <= b else -1

class Case:
    def __init__(self, name, layout):
        self.name = name; self.size, self.align, self.drop = layout
        self.lines = []; self.nvec = 0; self.tags = set()
    def add(self, line, fault=None):
        if fault is not None: self.lines.append("fault %d" % fault)
        self.lines.append(line)
    def new(self, ty, bk, traits, cap=None):
        k = self.nvec; self.nvec += 1
        self.add(("new %d %s %s" % (ty, bk, traits)) if cap is None else ("withcap %d %s %s %d" % (ty, bk, traits, cap)))
        return k
    def finish(self, live):
        for v in live: self.add("dropvec %d" % v)
        self.add("release"); self.add("end")
    def text(self):
        return "case %s size=%d align=%d drop=%d\n%s\n" % (self.name, self.size, self.align, self.drop, "\n".join(self.lines))

def fill(c, v, n, rng, styles=("w", "r", "t")):
    """n elements of the vector's own type (0) through a mix of push paths"""
    for _ in range(n):
        s = rng.choice(styles)
        c.add("tpush %d" % v if s == "t" else "push %d %s0" % (v, s))

# ---------------------------------------------------------------------------------------------
def setup3(c, bk, traits, L, rng, aux_traits=None):
    """v0: the vector under test with L elements; v1: same type, 2 elements; v2: other type, 1 element"""
    at = aux_traits or ("clone" if "clone" in traits else traits)
    aux_bk = "heap"
    v0 = c.new(0, bk, traits); v1 = c.new(0, aux_bk, at); v2 = c.new(1, aux_bk, at)
    fill(c, v0, L, rng); fill(c, v1, 2, rng)
    c.add("push %d w1" % v2)
    return v0, v1, v2

def elementwise_instances(L, cloneable, len1=2):
    """every element-wise operation instance on v0 (len L) with helper vectors v1 (same type, len1)
    and v2 (other type)"""
    ops = []
    srcs = ["w0", "r0", "w1", "r1"]
    if cloneable: srcs += ["l1.%d.%d" % (i, d) for i in range(len1 + 1) for d in (1, 2, 3)] + ["l2.0.1"]
    sinks = ["drop", "dc0", "dc1", "push1", "push2", "swap0", "swap1"] + ["ins1.%d" % j for j in range(len1 + 2)]
    if cloneable: sinks += ["lazy1.0", "lazy1.1", "lazy1.2", "lazy2.1"]
    for s in srcs: ops.append("push 0 %s" % s)
    ops.append("tpush 0")
    for i in range(L + 2):
        for s in srcs: ops.append("insert 0 %d %s" % (i, s))
        ops.append("tinsert 0 %d" % i)
    for k in sinks: ops.append("pop 0 %s" % k)
    ops.append("tpop 0")
    for i in range(L + 2):
        for k in sinks:
            ops.append("remove 0 %d %s" % (i, k)); ops.append("swapremove 0 %d %s" % (i, k))
        ops.append("tremove 0 %d" % i); ops.append("tswapremove 0 %d" % i)
    ops.append("clear 0")
    return ops

def probes(L):
    ls = []
    for i in range(L + 2): ls += ["get 0 %d" % i]
    for i in range(L + 2): ls += ["at 0 %d" % i]
    n = L + 2
    ls.append("iter 0 " + "F" * n); ls.append("iter 0 " + "B" * n); ls.append("iter 0 " + ("FB" * n)[:n])
    return ls

def gen_elementwise(rng, layouts, kinds, Ls, tag="ew"):
    n = 0
    for layout in layouts:
        for bk, traits in kinds:
            cap = kind_cap(bk, layout[0])
            for L in Ls:
                if cap is not None and (cap < 0 or L > cap): continue
                cl = "clone" in traits
                for op in elementwise_instances(L, cl):
                    c = Case("%s%d" % (tag, n), layout); n += 1
                    setup3(c, bk, traits, L, rng)
                    c.add(op)
                    c.add("iter 0 " + "F" * (L + 2))
                    c.finish([0, 1, 2]); c.tags.add(op.split()[0])
                    yield c
                c = Case("%s%d" % (tag, n), layout); n += 1
                setup3(c, bk, traits, L, rng)
                for p in probes(L): c.add(p)
                c.finish([0, 1, 2]); c.tags.add("probe")
                yield c

def rand_history(rng, name, layout, kinds, nops, maxlen, nvecs=3, max_created=None):
    """long random fault-free history over several vectors exchanging elements"""
    c = Case(name, layout)
    size = layout[0]
    budget = max_created if max_created is not None else (10**9 if size >= 8 or size == 0 else (256 ** size) - 8)
    created = 0
    vs = []
    for _ in range(nvecs):
        bk, tr = rng.choice(kinds)
        ty = 0 if rng.random() < 0.8 else 1
        v = c.new(ty, bk, tr); vs.append({"v": v, "ty": ty, "bk": bk, "tr": tr, "len": 0, "cap": kind_cap(bk, size)})
    def pick(pred=lambda d: True):
        xs = [d for d in vs if pred(d)]
        return rng.choice(xs) if xs else None
    for _ in range(nops):
        d = rng.choice(vs); v = d["v"]; ln = d["len"]
        room = d["cap"] is None or ln < d["cap"]
        r = rng.random()
        grow = ln < maxlen and created < budget
        if r < 0.30 and grow:
            # push / insert from a fresh value
            src = rng.choice(["w", "r", "t"])
            tyv = d["ty"] if rng.random() < 0.93 else 1 - d["ty"]
            if src == "t": tyv = d["ty"]
            if rng.random() < 0.5:
                c.add("tpush %d" % v if src == "t" else "push %d %s%d" % (v, src, tyv)); ok = room and tyv == d["ty"]
            else:
                i = rng.randint(0, ln + (1 if rng.random() < 0.05 else 0))
                c.add("tinsert %d %d" % (v, i) if src == "t" else "insert %d %d %s%d" % (v, i, src, tyv)); ok = room and tyv == d["ty"] and i <= ln
            created += 1
            if ok: d["len"] += 1
        elif r < 0.55 and ln > 0:
            # removal with a sink
            kind = rng.choice(["pop", "remove", "swapremove", "tpop", "tremove", "tswapremove"])
            i = rng.randrange(ln) if rng.random() < 0.97 else ln
            if kind.startswith("t"):
                c.add("%s %d" % (kind, v) if kind == "tpop" else "%s %d %d" % (kind, v, i))
                if kind == "tpop" or i < ln: d["len"] -= 1
            else:
                o = pick(lambda e: e is not d)
                sinks = ["drop", "dc%d" % d["ty"], "dc%d" % (1 - d["ty"]), "swap%d" % d["ty"]]
                if o is not None:
                    sinks += ["push%d" % o["v"], "ins%d.%d" % (o["v"], rng.randint(0, o["len"]))]
                    if "clone" in d["tr"] and created < budget - 2: sinks.append("lazy%d.%d" % (o["v"], rng.randint(0, 2)))
                k = rng.choice(sinks)
                c.add("%s %d %s" % (kind, v, k) if kind == "pop" else "%s %d %d %s" % (kind, v, i, k))
                if kind == "pop" or i < ln:
                    d["len"] -= 1
                    if k.startswith("swap"): created += 1
                    if o is not None and (k.startswith("push") or k.startswith("ins")):
                        if o["ty"] == d["ty"] and (o["cap"] is None or o["len"] < o["cap"]): o["len"] += 1
                    if k.startswith("lazy"):
                        n = int(k.split(".")[1])
                        for _ in range(n):
                            if o["ty"] == d["ty"] and (o["cap"] is None or o["len"] < o["cap"]): o["len"] += 1; created += 1
        elif r < 0.62 and ln > 0 and "clone" in d["tr"] and grow:
            o = pick(lambda e: e is not d)
            if o is not None:
                i = rng.randrange(ln)
                c.add("push %d l%d.%d.%d" % (o["v"], v, i, rng.randint(1, 3)))
                if o["ty"] == d["ty"] and (o["cap"] is None or o["len"] < o["cap"]): o["len"] += 1; created += 1
        elif r < 0.72:
            i = rng.randint(0, ln + 1)
            c.add(rng.choice(["get", "at"]) + " %d %d" % (v, i))
        elif r < 0.78:
            n = min(ln + 2, 12)
            c.add("iter %d %s" % (v, "".join(rng.choice("FB") for _ in range(n))))
        elif r < 0.80:
            c.add("clear %d" % v); d["len"] = 0
        elif r < 0.82:
            c.add("release")
        else:
            if grow and room:
                c.add("push %d w%d" % (v, d["ty"])); d["len"] += 1; created += 1
    c.finish([d["v"] for d in vs]); c.tags.add("random")
    return c
