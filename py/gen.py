"""Script generators. A case is (name, size, align, drop, [lines]); every random choice comes from
one seeded PRNG."""
import random

LAYOUTS = [(0,1,1),(0,1,0),(1,1,1),(1,1,0),(2,2,1),(2,1,0),(3,1,1),(3,1,0),(8,8,1),(8,8,0),(8,4,1),
           (12,4,1),(12,4,0),(16,16,1),(16,8,0),(24,8,1),(24,8,0),(64,64,1),(160,32,1),(160,32,0)]
CORE_LAYOUT = (8, 8, 1)
CORE_KINDS = [("heap","clone"),("heap","none"),("stack:48","clone"),("stack:512","clone"),
              ("stackn:2:48","clone"),("stackn:3:512","clone"),("reloc","clone"),("reloc","none"),("empty","clone")]
EXTRA_KINDS = [("heap","send"),("heap","sync"),("heap","send+sync"),("heap","clone+send"),("heap","clone+sync"),
               ("heap","clone+send+sync"),("stack:15","clone"),("stack:16","clone"),("stack:17","clone"),
               ("stackn:2:15","clone"),("stackn:2:16","clone"),("stackn:2:17","clone")]

def kind_cap(bk, size):
    """capacity of a fixed backend for this element size; None = resizable; -1 = build panics"""
    if bk in ("heap", "reloc"): return None
    if bk == "empty": return 0
    p = bk.split(":")
    if p[0] == "stack": return (2**64 - 1) if size == 0 else int(p[1]) // size
    n, b = int(p[1]), int(p[2])
    return n if n * size <= b else -1

class Case:
    def __init__(self, name, layout):
        assert tuple(layout) in LAYOUTS, "no element family for layout %r in the harness" % (layout,)
        self.name = name; self.size, self.align, self.drop = layout
        self.lines = []; self.nvec = 0; self.tags = set()
    def add(self, line, fault=None):
        if fault is not None: self.lines.append("fault %d" % fault)
        self.lines.append(line)
    def new(self, ty, bk, traits, cap=None):
        k = self.nvec; self.nvec += 1
        self.add(("new %d %s %s" % (ty, bk, traits)) if cap is None else ("withcap %d %s %s %d" % (ty, bk, traits, cap)))
        return k
    def finish(self, live):
        for v in live: self.add("dropvec %d" % v)
        self.add("release"); self.add("end")
    def text(self):
        return "case %s size=%d align=%d drop=%d\n%s\n" % (self.name, self.size, self.align, self.drop, "\n".join(self.lines))

def fill(c, v, n, rng, styles=("w", "r", "t")):
    """n elements of the vector's own type (0) through a mix of push paths"""
    for _ in range(n):
        s = rng.choice(styles)
        c.add("tpush %d" % v if s == "t" else "push %d %s0" % (v, s))

def fill_ty(c, v, n, rng, ty):
    for _ in range(n):
        s = rng.choice("wrt")
        c.add("tpush %d" % v if s == "t" else "push %d %s%d" % (v, s, ty))

# ---------------------------------------------------------------------------------------------
def setup3(c, bk, traits, L, rng, aux_traits=None):
    """v0: the vector under test with L elements; v1: same type, 2 elements; v2: other type, 1 element"""
    at = aux_traits or ("clone" if "clone" in traits else traits)
    aux_bk = "heap"
    cap = kind_cap(bk, c.size)
    assert cap is None or L <= cap, "generator: %d elements do not fit the fixed capacity %d of %s (element size %d)" % (L, cap, bk, c.size)
    v0 = c.new(0, bk, traits); v1 = c.new(0, aux_bk, at); v2 = c.new(1, aux_bk, at)
    fill(c, v0, L, rng); fill(c, v1, 2, rng)
    c.add("push %d w1" % v2)
    return v0, v1, v2

def elementwise_instances(L, cloneable, len1=2):
    """every element-wise operation instance on v0 (len L) with helper vectors v1 (same type, len1)
    and v2 (other type)"""
    ops = []
    # s0 / y0: raw pointers without type (and without size) through push_unchecked / insert_unchecked (own type only)
    srcs = ["w0", "r0", "w1", "r1", "s0", "y0"]
    if cloneable: srcs += ["l1.%d.%d" % (i, d) for i in range(len1 + 1) for d in (1, 2, 3)] + ["l2.0.1"]
    sinks = ["drop", "dc0", "dc1", "push1", "push2", "swap0", "swap1"] + ["ins1.%d" % j for j in range(len1 + 2)]
    if cloneable: sinks += ["lazy1.0", "lazy1.1", "lazy1.2", "lazy2.1"]
    for s in srcs: ops.append("push 0 %s" % s)
    ops.append("tpush 0")
    for i in range(L + 2):
        for s in srcs: ops.append("insert 0 %d %s" % (i, s))
        ops.append("tinsert 0 %d" % i)
    for k in sinks: ops.append("pop 0 %s" % k)
    ops.append("tpop 0")
    for i in range(L + 2):
        for k in sinks:
            ops.append("remove 0 %d %s" % (i, k)); ops.append("swapremove 0 %d %s" % (i, k))
        ops.append("tremove 0 %d" % i); ops.append("tswapremove 0 %d" % i)
    ops.append("clear 0")
    return ops

def probes(L):
    ls = []
    for i in range(L + 2): ls += ["get 0 %d" % i]
    for i in range(L + 2): ls += ["at 0 %d" % i]
    n = L + 2
    ls.append("iter 0 " + "F" * n); ls.append("iter 0 " + "B" * n); ls.append("iter 0 " + ("FB" * n)[:n])
    return ls

def gen_elementwise(rng, layouts, kinds, Ls, tag="ew"):
    n = 0
    for layout in layouts:
        for bk, traits in kinds:
            cap = kind_cap(bk, layout[0])
            for L in Ls:
                if cap is not None and (cap < 0 or L > cap): continue
                cl = "clone" in traits
                for op in elementwise_instances(L, cl):
                    c = Case("%s%d" % (tag, n), layout); n += 1
                    setup3(c, bk, traits, L, rng)
                    c.add(op)
                    c.add("iter 0 " + "F" * (L + 2))
                    c.finish([0, 1, 2]); c.tags.add(op.split()[0])
                    yield c
                c = Case("%s%d" % (tag, n), layout); n += 1
                setup3(c, bk, traits, L, rng)
                for p in probes(L): c.add(p)
                c.finish([0, 1, 2]); c.tags.add("probe")
                yield c

def rand_history(rng, name, layout, kinds, nops, maxlen, nvecs=3, max_created=None, ranges=False, clones=False, caps=False):
    """long random fault-free history over several vectors exchanging elements"""
    c = Case(name, layout)
    size = layout[0]
    budget = max_created if max_created is not None else (10**9 if size >= 8 or size == 0 else (256 ** size) - 8)
    created = 0
    vs = []
    for _ in range(nvecs):
        bk, tr = rng.choice(kinds)
        ty = 0 if rng.random() < 0.8 else 1
        v = c.new(ty, bk, tr); vs.append({"v": v, "ty": ty, "bk": bk, "tr": tr, "len": 0, "cap": kind_cap(bk, size)})
    def pick(pred=lambda d: True):
        xs = [d for d in vs if pred(d)]
        return rng.choice(xs) if xs else None
    for _ in range(nops):
        d = rng.choice(vs); v = d["v"]; ln = d["len"]
        room = d["cap"] is None or ln < d["cap"]
        r = rng.random()
        grow = ln < maxlen and created < budget
        if r < 0.30 and grow:
            # push / insert from a fresh value
            src = rng.choice(["w", "r", "t", "w", "r", "t", "s", "y"])
            tyv = d["ty"] if rng.random() < 0.93 else 1 - d["ty"]
            if src in "tsy": tyv = d["ty"]          # typed view / unchecked raw pointers: the vector's own type only
            if rng.random() < 0.5:
                c.add("tpush %d" % v if src == "t" else "push %d %s%d" % (v, src, tyv)); ok = room and tyv == d["ty"]
            else:
                i = rng.randint(0, ln + (1 if rng.random() < 0.05 else 0))
                c.add("tinsert %d %d" % (v, i) if src == "t" else "insert %d %d %s%d" % (v, i, src, tyv)); ok = room and tyv == d["ty"] and i <= ln
            created += 1
            if ok: d["len"] += 1
        elif r < 0.55 and ln > 0:
            # removal with a sink
            kind = rng.choice(["pop", "remove", "swapremove", "tpop", "tremove", "tswapremove"])
            i = rng.randrange(ln) if rng.random() < 0.97 else ln
            if kind.startswith("t"):
                c.add("%s %d" % (kind, v) if kind == "tpop" else "%s %d %d" % (kind, v, i))
                if kind == "tpop" or i < ln: d["len"] -= 1
            else:
                o = pick(lambda e: e is not d)
                sinks = ["drop", "dc%d" % d["ty"], "dc%d" % (1 - d["ty"]), "swap%d" % d["ty"]]
                if o is not None:
                    sinks += ["push%d" % o["v"], "ins%d.%d" % (o["v"], rng.randint(0, o["len"]))]
                    if "clone" in d["tr"] and created < budget - 2: sinks.append("lazy%d.%d" % (o["v"], rng.randint(0, 2)))
                k = rng.choice(sinks)
                c.add("%s %d %s" % (kind, v, k) if kind == "pop" else "%s %d %d %s" % (kind, v, i, k))
                if kind == "pop" or i < ln:
                    d["len"] -= 1
                    if k.startswith("swap"): created += 1
                    if o is not None and (k.startswith("push") or k.startswith("ins")):
                        if o["ty"] == d["ty"] and (o["cap"] is None or o["len"] < o["cap"]): o["len"] += 1
                    if k.startswith("lazy"):
                        n = int(k.split(".")[1])
                        for _ in range(n):
                            if o["ty"] == d["ty"] and (o["cap"] is None or o["len"] < o["cap"]): o["len"] += 1; created += 1
        elif r < 0.62 and ln > 0 and "clone" in d["tr"] and grow:
            o = pick(lambda e: e is not d)
            if o is not None:
                i = rng.randrange(ln)
                c.add("push %d l%d.%d.%d" % (o["v"], v, i, rng.randint(1, 3)))
                if o["ty"] == d["ty"] and (o["cap"] is None or o["len"] < o["cap"]): o["len"] += 1; created += 1
        elif r < 0.72:
            i = rng.randint(0, ln + 1)
            c.add(rng.choice(["get", "at"]) + " %d %d" % (v, i))
        elif r < 0.78:
            n = min(ln + 2, 12)
            c.add("iter %d %s" % (v, "".join(rng.choice("FB") for _ in range(n))))
        elif r < 0.80:
            c.add("clear %d" % v); d["len"] = 0
        elif r < 0.82:
            c.add("release")
        elif r < 0.90 and ranges and created < budget - 4:
            s_ = rng.randint(0, ln); e_ = rng.randint(s_, ln)
            lo, hi = rng.choice(range_forms(s_, e_, ln))
            typed = rng.random() < 0.4
            sinks = ["drop", "dc%d" % d["ty"]] if typed else ["drop", "dc%d" % d["ty"], "dc%d" % (1 - d["ty"]), "swap%d" % d["ty"]]
            n_eat = rng.randint(0, (e_ - s_) + 1)
            eats = ",".join("%s:%s" % (rng.choice("FB"), rng.choice(sinks)) for _ in range(n_eat)) or "-"
            created += sum(1 for x in eats.split(",") if "swap" in x)
            if rng.random() < 0.5:
                c.add("drain %d %s %s %s %s drop" % (v, lo, hi, "t" if typed else "e", eats)); d["len"] = ln - (e_ - s_)
            else:
                k = rng.randint(0, 3)
                if d["cap"] is not None: k = min(k, d["cap"] - (ln - (e_ - s_)))
                repl = ["w%d" % d["ty"]] * k if typed else [rng.choice(["w", "r"]) + str(d["ty"]) for _ in range(k)]
                c.add("splice %d %s %s %s %s +0 %s drop" % (v, lo, hi, "t" if typed else "e", ",".join(repl) or "-", eats))
                d["len"] = ln - (e_ - s_) + k; created += k
        elif r < 0.93 and clones and "clone" in d["tr"] and len(vs) < 6 and created + ln < budget:
            if d["cap"] is None or d["cap"] >= 0:
                c.add("clone %d" % v)
                vs.append({"v": c.nvec, "ty": d["ty"], "bk": d["bk"], "tr": d["tr"], "len": ln, "cap": d["cap"]}); c.nvec += 1
                created += ln
        elif r < 0.96 and caps and d["cap"] is None:
            k = rng.choice(["reserve", "reserveexact", "shrinkto", "shrinktofit"])
            c.add("%s %d" % (k, v) if k == "shrinktofit" else "%s %d %d" % (k, v, rng.randint(0, 2 * ln + 3)))
        else:
            if grow and room:
                c.add("push %d w%d" % (v, d["ty"])); d["len"] += 1; created += 1
    c.finish([d["v"] for d in vs]); c.tags.add("random")
    return c

# ---------------------------------------------------------------------------------------------
USIZE_MAX = 2**64 - 1

def range_forms(s, e, L):
    """every RangeBounds spelling of the valid range [s, e) on a vector of length L"""
    forms = [("i%d" % s, "e%d" % e)]
    if e > 0: forms.append(("i%d" % s, "i%d" % (e - 1)))
    if s > 0: forms.append(("e%d" % (s - 1), "e%d" % e))
    if s > 0 and e > 0: forms.append(("e%d" % (s - 1), "i%d" % (e - 1)))
    if s == 0: forms.append(("u", "e%d" % e))
    if s == 0 and e > 0: forms.append(("u", "i%d" % (e - 1)))
    if e == L: forms.append(("i%d" % s, "u"))
    if e == L and s > 0: forms.append(("e%d" % (s - 1), "u"))
    if s == 0 and e == L: forms.append(("u", "u"))
    return forms

def invalid_ranges(L):
    M = USIZE_MAX
    return [("i%d" % (L + 1), "e%d" % L), ("i1", "e0"), ("i0", "e%d" % (L + 1)), ("i0", "i%d" % L),
            ("u", "e%d" % (L + 1)), ("i%d" % (L + 1), "u"), ("e%d" % L, "u"), ("e%d" % L, "e%d" % L),
            ("i0", "i%d" % M), ("u", "i%d" % M), ("e%d" % M, "u"), ("e%d" % M, "e%d" % M),
            ("i%d" % M, "u"), ("i0", "e%d" % M), ("i%d" % M, "i%d" % M), ("e%d" % (M - 1), "i%d" % M),
            ("i2", "i0") if L >= 2 else ("i1", "e0")]

def choice_strings(r, extra, rng, cap=40):
    """all next/next_back interleavings up to r+extra calls (sampled beyond `cap`)"""
    out = [""]
    for n in range(1, r + extra + 1):
        for k in range(2 ** n):
            out.append("".join("FB"[(k >> j) & 1] for j in range(n)))
    if len(out) > cap:
        keep = ["", "F" * (r + extra), "B" * (r + extra), ("FB" * r)[:r + extra], ("BF" * r)[:r + extra]]
        out = keep[:cap] + rng.sample(out, max(0, cap - len(keep)))
    return out

def gen_ranges(rng, layouts, kinds, Ls, tag, typed_too=True, sinks_erased=None, with_splice=True,
               repl_sets=None, fins=("drop",), claims=(0,), strings_cap=24):
    n = 0
    sinks_e = sinks_erased or ["drop", "dc0", "dc1", "push1", "ins1.1", "swap0", "lazy1.1"]
    sinks_t = ["drop", "dc0"]
    rs = repl_sets or [[], ["w0"], ["r0"], ["w0", "w0"], ["r0", "w0", "r0"], ["l1.0.1"], ["w0", "l1.1.2", "r0"], ["w0", "w0", "w0"]]
    for layout in layouts:
        for bk, traits in kinds:
            cap = kind_cap(bk, layout[0])
            cl = "clone" in traits
            for L in Ls:
                if cap is not None and (cap < 0 or L > cap): continue
                specs = []
                for s in range(L + 1):
                    for e in range(s, L + 1):
                        forms = range_forms(s, e, L)
                        for cs in choice_strings(e - s, 1, rng, strings_cap):
                            specs.append((rng.choice(forms), cs, e - s))
                        for f in forms: specs.append((f, "F" * (e - s), e - s))
                for f in invalid_ranges(L): specs.append((f, "", 0))
                for (lo, hi), cs, r in specs:
                    for typed in ((False, True) if typed_too else (False,)):
                        sinks = sinks_t if typed else [k for k in sinks_e if cl or not k.startswith("lazy")]
                        eats = ",".join("%s:%s" % (c, rng.choice(sinks)) for c in cs) or "-"
                        for fin in fins:
                            c = Case("%s%d" % (tag, n), layout); n += 1
                            setup3(c, bk, traits, L, rng)
                            c.add("drain 0 %s %s %s %s %s" % (lo, hi, "t" if typed else "e", eats, fin))
                            c.add("iter 0 " + "F" * (L + 1))
                            c.finish([0, 1, 2]); c.tags.add("drain")
                            yield c
                            if not with_splice: continue
                            repl = rng.choice(rs)
                            if typed: repl = [x for x in repl if x == "w0"]
                            if not cl: repl = [x for x in repl if not x.startswith("l")]
                            seats = eats
                            if any(x.startswith("l1.") for x in repl):
                                # a lazy clone borrows vector 1 for the whole call: nothing may go into it
                                ok_sinks = [k for k in sinks if not k.endswith("1") and "1." not in k]
                                seats = ",".join("%s:%s" % (c_, rng.choice(ok_sinks)) for c_ in cs) or "-"
                            for claim in claims:
                                c = Case("%s%d" % (tag, n), layout); n += 1
                                setup3(c, bk, traits, L, rng)
                                c.add("splice 0 %s %s %s %s %+d %s %s" % (lo, hi, "t" if typed else "e",
                                      ",".join(repl) or "-", claim, seats, fin))
                                c.add("iter 0 " + "F" * (L + 3))
                                c.finish([0, 1, 2]); c.tags.add("splice")
                                yield c
