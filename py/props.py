"""Per-property configuration: script generators (quick / thorough), which observations are
compared with the model, which oracle failures belong to the property."""
import random
import gen as G

TRUSTED = [
    "Lean 4.33 kernel; axioms of every property theorem within {propext, Classical.choice, Quot.sound} (audited each run)",
    "hand-written Lean model of the crate (order of effects, unwind actions, usize arithmetic) - tied to /repo by the differential correspondence of this run",
    "Rust harness (instrumented element types, allocator, Reloc backend), Python script generators, shadow-Vec / identity-registry oracles and comparator",
    "Lean compiler for the model driver (same definitions the theorems are about)",
    "rustc 1.95 as the semantics the harness runs on",
]

def layouts_quick(rng, n):
    ls = [l for l in G.LAYOUTS if l != G.CORE_LAYOUT]
    rng.shuffle(ls)
    return [G.CORE_LAYOUT] + ls[:n]

# ------------------------------------------------------------------------------------------ C01
def gen_c01(tier, seed):
    rng = random.Random(seed * 1000003 + 1)
    cases = []
    if tier == "quick":
        Ls = [0, 1, 2, 3, 4]
        # every layout on the heap (the erased copy paths depend on the element size) ...
        for layout in G.LAYOUTS:
            L = [0, 2, 3] if layout != G.CORE_LAYOUT else Ls
            cases += list(G.gen_elementwise(rng, [layout], [("heap", "clone")], L, tag="ew%d_%d_%d_" % layout))
        # ... and the core layout on every backend / constraint set
        kinds = [k for k in G.CORE_KINDS if k != ("heap", "clone") and k[0] != "empty"] + G.EXTRA_KINDS[:6]
        cases += list(G.gen_elementwise(rng, [G.CORE_LAYOUT], kinds, [0, 1, 3], tag="ewk"))
        nrand, nops, maxlen = 40, 250, 40
    else:
        for layout in G.LAYOUTS:
            cases += list(G.gen_elementwise(rng, [layout], [("heap", "clone"), ("reloc", "clone"), ("stack:512", "clone")],
                                            [0, 1, 2, 3, 4, 5, 6], tag="ew%d_%d_%d_" % layout))
        cases += list(G.gen_elementwise(rng, [G.CORE_LAYOUT], G.CORE_KINDS[:-1] + G.EXTRA_KINDS, [0, 1, 2, 3, 4, 5], tag="ewk"))
        nrand, nops, maxlen = 300, 1500, 200
    kinds = [("heap", "clone"), ("heap", "clone"), ("reloc", "clone"), ("heap", "none"), ("stack:512", "clone")]
    for i in range(nrand):
        layout = G.LAYOUTS[i % len(G.LAYOUTS)]
        ml = maxlen
        # straddle the 128-byte threshold of the erased copy for this element size
        if layout[0] in (1, 2, 3): ml = max(ml, 140 // layout[0] + 8)
        cases.append(G.rand_history(rng, "rnd%d" % i, layout, kinds, nops, ml))
    return cases

PROPS = {
    "C01": {
        "gen": gen_c01,
        "proj": {},
        "kinds": {"vec-semantics"},
        "rule": "a case builds a vector state (len 0..L) through a mix of push paths, applies one operation instance "
                "(every index 0..=len+1 x value source x value sink x erased/typed path) or a long random history over "
                "three vectors; distinct = distinct script text; non-trivial = the operation under test acts on or "
                "inspects a non-empty vector or panics by contract",
        "design_ref": "DESIGN.md section 7, C01",
    },
}
STATIC = set()

# ------------------------------------------------------------------------------------------ C02
def gen_c02(tier, seed):
    rng = random.Random(seed * 1000003 + 2)
    cases = []
    if tier == "quick":
        cases += list(G.gen_ranges(rng, [G.CORE_LAYOUT], [("heap", "clone")], [0, 1, 2, 3, 4], "rg"))
        cases += list(G.gen_ranges(rng, [G.CORE_LAYOUT], [("stack:48", "clone"), ("reloc", "clone"), ("heap", "none"), ("stackn:2:48", "clone")],
                                   [0, 2, 3, 6], "rgk", strings_cap=6))
        others = [l for l in G.LAYOUTS if l != G.CORE_LAYOUT]
        cases += list(G.gen_ranges(rng, others, [("heap", "clone")], [0, 3], "rgl", strings_cap=5))
    else:
        cases += list(G.gen_ranges(rng, G.LAYOUTS, [("heap", "clone"), ("reloc", "clone"), ("stack:512", "clone")], [0, 1, 2, 3, 4, 5], "rg", strings_cap=40))
        cases += list(G.gen_ranges(rng, [G.CORE_LAYOUT], G.CORE_KINDS[:-1] + G.EXTRA_KINDS, [0, 1, 2, 3, 4, 6], "rgk", strings_cap=12))
    return cases

PROPS["C02"] = {
    "gen": gen_c02, "proj": {}, "kinds": {"vec-semantics"},
    "release_subset": lambda c: any("18446744073709551615" in l or "18446744073709551614" in l for l in c.lines),
    "rule": "a case builds a vector (len 0..L), runs one drain or splice instance (every valid (start,end) in every "
            "RangeBounds spelling, invalid ranges at the boundary and at usize::MAX, every next/next_back interleaving "
            "up to range length + 1 with a sink per item, erased and typed, replacement lists of 0..3 values from every "
            "source kind) and then iterates the result; distinct = distinct script text",
    "design_ref": "DESIGN.md section 7, C02",
}
