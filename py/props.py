"""Per-property configuration: script generators (quick / thorough), which observations are
compared with the model, which oracle failures belong to the property."""
import random
import gen as G

TRUSTED = [
    "Lean 4.33 kernel; axioms of every property theorem within {propext, Classical.choice, Quot.sound} (audited each run)",
    "hand-written Lean model of the crate (order of effects, unwind actions, usize arithmetic) - tied to /repo by the differential correspondence of this run",
    "Rust harness (instrumented element types, allocator, Reloc backend), Python script generators, shadow-Vec / identity-registry oracles and comparator",
    "Lean compiler for the model driver (same definitions the theorems are about)",
    "rustc 1.95 as the semantics the harness runs on",
]

def layouts_quick(rng, n):
    ls = [l for l in G.LAYOUTS if l != G.CORE_LAYOUT]
    rng.shuffle(ls)
    return [G.CORE_LAYOUT] + ls[:n]

# ------------------------------------------------------------------------------------------ C01
def gen_c01(tier, seed):
    rng = random.Random(seed * 1000003 + 1)
    cases = []
    if tier == "quick":
        Ls = [0, 1, 2, 3, 4]
        # every layout on the heap (the erased copy paths depend on the element size) ...
        for layout in G.LAYOUTS:
            L = [0, 2, 3] if layout != G.CORE_LAYOUT else Ls
            cases += list(G.gen_elementwise(rng, [layout], [("heap", "clone")], L, tag="ew%d_%d_%d_" % layout))
        # ... and the core layout on every backend / constraint set
        kinds = [k for k in G.CORE_KINDS if k != ("heap", "clone") and k[0] != "empty"] + G.EXTRA_KINDS[:6]
        cases += list(G.gen_elementwise(rng, [G.CORE_LAYOUT], kinds, [0, 1, 3], tag="ewk"))
        nrand, nops, maxlen = 40, 250, 40
    else:
        for layout in G.LAYOUTS:
            cases += list(G.gen_elementwise(rng, [layout], [("heap", "clone"), ("reloc", "clone"), ("stack:512", "clone")],
                                            [0, 1, 2, 3, 4, 5, 6], tag="ew%d_%d_%d_" % layout))
        cases += list(G.gen_elementwise(rng, [G.CORE_LAYOUT], G.CORE_KINDS[:-1] + G.EXTRA_KINDS, [0, 1, 2, 3, 4, 5], tag="ewk"))
        nrand, nops, maxlen = 300, 1500, 200
    kinds = [("heap", "clone"), ("heap", "clone"), ("reloc", "clone"), ("heap", "none"), ("stack:512", "clone")]
    for i in range(nrand):
        layout = G.LAYOUTS[i % len(G.LAYOUTS)]
        ml = maxlen
        # straddle the 128-byte threshold of the erased copy for this element size
        if layout[0] in (1, 2, 3): ml = max(ml, 140 // layout[0] + 8)
        cases.append(G.rand_history(rng, "rnd%d" % i, layout, kinds, nops, ml))
    return cases

PROPS = {
    "C01": {
        "gen": gen_c01,
        "proj": {},
        # "identical to Vec" includes which elements are destroyed: the ownership oracles judge too
        "kinds": {"vec-semantics", "double-drop", "drop-while-visible", "duplicate-visible", "drop-accounting"},
        "rule": "a case builds a vector state (len 0..L) through a mix of push paths, applies one operation instance "
                "(every index 0..=len+1 x value source x value sink x erased/typed path) or a long random history over "
                "three vectors; distinct = distinct script text; non-trivial = the operation under test acts on or "
                "inspects a non-empty vector or panics by contract",
        "design_ref": "DESIGN.md section 7, C01",
    },
}
STATIC = {'C15', 'C16', 'C19'}

# ------------------------------------------------------------------------------------------ C02
def gen_c02(tier, seed):
    rng = random.Random(seed * 1000003 + 2)
    cases = []
    if tier == "quick":
        cases += list(G.gen_ranges(rng, [G.CORE_LAYOUT], [("heap", "clone")], [0, 1, 2, 3, 4], "rg"))
        cases += list(G.gen_ranges(rng, [G.CORE_LAYOUT], [("stack:48", "clone"), ("reloc", "clone"), ("heap", "none"), ("stackn:2:48", "clone")],
                                   [0, 2, 3, 6], "rgk", strings_cap=6))
        others = [l for l in G.LAYOUTS if l != G.CORE_LAYOUT]
        cases += list(G.gen_ranges(rng, others, [("heap", "clone")], [0, 3], "rgl", strings_cap=5))
    else:
        cases += list(G.gen_ranges(rng, G.LAYOUTS, [("heap", "clone"), ("reloc", "clone"), ("stack:512", "clone")], [0, 1, 2, 3, 4, 5], "rg", strings_cap=40))
        cases += list(G.gen_ranges(rng, [G.CORE_LAYOUT], G.CORE_KINDS[:-1] + G.EXTRA_KINDS, [0, 1, 2, 3, 4, 6], "rgk", strings_cap=12))
    return cases

PROPS["C02"] = {
    "gen": gen_c02, "proj": {}, "kinds": {"vec-semantics", "double-drop", "drop-while-visible", "duplicate-visible", "drop-accounting"},
    "release_subset": lambda c: any("18446744073709551615" in l or "18446744073709551614" in l for l in c.lines),
    "rule": "a case builds a vector (len 0..L), runs one drain or splice instance (every valid (start,end) in every "
            "RangeBounds spelling, invalid ranges at the boundary and at usize::MAX, every next/next_back interleaving "
            "up to range length + 1 with a sink per item, erased and typed, replacement lists of 0..3 values from every "
            "source kind) and then iterates the result; distinct = distinct script text",
    "design_ref": "DESIGN.md section 7, C02",
}

# ============================================================================================
OWN = {"double-drop", "drop-while-visible", "duplicate-visible", "resurrected", "leak-at-end", "drop-accounting",
       "identity", "memory"}
SEM = {"vec-semantics"}
KINDS_RAND = [("heap", "clone"), ("heap", "clone"), ("reloc", "clone"), ("heap", "none"), ("stack:512", "clone")]

def teardown(c):
    c.finish(list(range(c.nvec)))

# ------------------------------------------------------------------------------------------ C03
def gen_c03(tier, seed):
    rng = random.Random(seed * 1000003 + 3)
    cases = []
    q = tier == "quick"
    lays = [G.CORE_LAYOUT, (8, 8, 0), (0, 1, 1), (3, 1, 1), (160, 32, 1)] if q else G.LAYOUTS
    cases += list(G.gen_elementwise(rng, lays, [("heap", "clone")], [0, 2, 3] if q else [0, 1, 2, 3, 4], tag="own"))
    cases += list(G.gen_ranges(rng, lays[:3] if q else lays, [("heap", "clone"), ("reloc", "clone")], [0, 3] if q else [0, 2, 4], "ownr",
                               strings_cap=6 if q else 16))
    n = 60 if q else 400
    for i in range(n):
        layout = G.LAYOUTS[i % len(G.LAYOUTS)]
        cases.append(G.rand_history(rng, "ownh%d" % i, layout, KINDS_RAND, 200 if q else 1200, 30 if q else 120,
                                    ranges=True, clones=True))
    # "destroyed exactly once" also when the one destructor run panics: a dropped handle, a clear, a vector drop
    k = 0
    for layout in ([G.CORE_LAYOUT, (3, 1, 1)] if q else [l for l in G.LAYOUTS if l[2]]):
        for bk in (["heap"] if q else ["heap", "reloc", "stack:512"]):
            for L in ([3] if q else [1, 3, 4]):
                cap = G.kind_cap(bk, layout[0])
                if cap is not None and (cap < 0 or L > cap): continue
                ops = ["clear 0", "pop 0 drop", "dropvec 0", "drain 0 u u e F:drop drop", "drain 0 i0 e%d e - drop" % min(L, 2)]
                for i in sorted(set([0, L // 2, L - 1])):
                    ops += ["remove 0 %d drop" % i, "swapremove 0 %d drop" % i]
                # a lazy clone whose `Clone` panics while `insert` has the tail moved away / `push` has made room
                ops += ["insert 0 0 l1.1.2", "insert 0 %d l1.0.1" % (L // 2), "push 0 l1.0.1"]
                for op in ops:
                    for f in (1, 2):
                        c = G.Case("ownf%d" % k, layout); k += 1
                        G.setup3(c, bk, "clone", L, rng)
                        c.add(op, fault=f)
                        if not op.startswith("dropvec"):
                            for fl in FOLLOW: c.add(fl)
                            c.finish(list(range(c.nvec)))
                        else: c.finish([1, 2])
                        cases.append(c)
            # a splice whose replacement stops half-way - an item of the wrong type, or a lazy clone that panics - when
            # the tail has already been moved: empty ranges (front, inner, end), an inner and the full range; vectors long
            # enough for the moved tail and its stale copy to overlap in the visible part
            if G.kind_cap(bk, layout[0]) is not None: continue
            for L in ([3, 5] if q else [2, 3, 5, 6]):
                for lo, hi in [("i1", "e1"), ("i0", "e0"), ("i%d" % L, "e%d" % L), ("i1", "e2"), ("u", "u")]:
                    sp = [("splice 0 %s %s e %s +0 - drop" % (lo, hi, ",".join(r)), None)
                          for r in (["w1", "w0", "w0"], ["w0", "w1", "w0"], ["w0", "r0", "w1"], ["w0", "w1"])]
                    sp += [("splice 0 %s %s e l1.0.1,w0,l1.1.1 +0 - drop" % (lo, hi), f) for f in (1, 2, 3, 4)]
                    sp += [("splice 0 %s %s e w0,l1.1.1 +0 - drop" % (lo, hi), f) for f in (1, 2)]
                    for op, f in sp:
                        c = G.Case("ownf%d" % k, layout); k += 1
                        G.setup3(c, bk, "clone", L, rng)
                        c.add(op, fault=f)
                        for fl in FOLLOW: c.add(fl)
                        c.finish(list(range(c.nvec)))
                        cases.append(c)
    return cases

PROPS["C03"] = {"gen": gen_c03, "proj": {}, "kinds": OWN,
    "rule": "C01/C02 operation instances plus long random histories over up to six vectors exchanging elements through every "
            "sink, with drain/splice and clone; the identity registry checks after every step: no element destroyed twice, "
            "none destroyed while reachable, none visible twice, none resurrected; at the end created == destroyed",
    "design_ref": "DESIGN.md section 7, C03"}

# ------------------------------------------------------------------------------------------ C04
def gen_c04(tier, seed):
    rng = random.Random(seed * 1000003 + 4)
    cases = []; n = 0
    q = tier == "quick"
    # zero-sized types also in the quick tier: all their elements live at one (dangling) address, whatever the type
    for layout in ([(8, 8, 1), (8, 8, 0), (0, 1, 1)] + ([] if q else [(16, 16, 1), (1, 1, 1)])):
        tys = [0, 1, 2, 3] if layout[0] == 8 and layout[1] == 8 else [0, 1]
        for L in ([0, 2] if q else [0, 1, 2, 3]):
            for tv in tys:
                for to in tys:
                    ops = []
                    for s in ("w", "r"):
                        ops += ["push 0 %s%d" % (s, to)] + ["insert 0 %d %s%d" % (i, s, to) for i in range(L + 1)]
                    ops += ["wswap 0 %d %d" % (i, to) for i in range(L)]
                    ops += ["dcvec 0 %d" % to, "info 0"]
                    for hk in ("pop 0", "remove 0 0", "swapremove 0 0"):
                        ops += ["%s dc%d" % (hk, to), "%s swap%d" % (hk, to), "%s info" % hk]
                        # tag 9 = `any_value::Unknown`, the compile-time type of every erased value: never an element type
                        if to == tv: ops.append("%s dc9" % hk)
                    if to == tv:
                        ops += ["drain 0 u u e F:dc9,B:dc9 drop", "splice 0 u u e w%d +0 F:dc9 drop" % tv]
                        if L > 0: ops += ["lazydc 0 0 1 9", "lazydc 0 %d 1 %d" % (L - 1, to)]
                    # values of vector 1 (type `to`) offered to vector 0 (type `tv`)
                    for hk in ("pop 1", "remove 1 0", "swapremove 1 1"):
                        ops += ["%s push0" % hk, "%s ins0.%d" % (hk, min(1, L)), "%s lazy0.1" % hk]
                    ops += ["push 0 l1.0.1", "insert 0 0 l1.1.2", "eswap 0 0 1 0"]
                    for pos in range(3):
                        repl = ["w%d" % tv] * 3; repl[pos] = "w%d" % to
                        ops.append("splice 0 i0 e%d e %s +0 - drop" % (min(1, L), ",".join(repl)))
                        repl = ["r%d" % tv] * 2 + ["w%d" % tv]; repl[pos] = "r%d" % to
                        ops.append("splice 0 u u e %s +0 F:drop drop" % ",".join(repl))
                    ops.append("drain 1 u u e F:push0,B:ins0.0,F:dc%d,B:info drop" % tv)
                    for op in ops:
                        c = G.Case("ty%d" % n, layout); n += 1
                        v0 = c.new(tv, "heap", "clone"); v1 = c.new(to, "heap", "clone")
                        G.fill_ty(c, v0, L, rng, tv); G.fill_ty(c, v1, 3, rng, to)
                        c.add(op); c.add("iter 0 FFFFFF"); c.add("info 0")
                        teardown(c); cases.append(c)
    return cases

PROPS["C04"] = {"gen": gen_c04, "proj": {}, "kinds": SEM | {"drop-accounting", "clone-accounting"},
    "rule": "all ordered pairs (vector element type, offered value type) from four layout-identical distinct types x every "
            "checked entry point (push, insert, splice item at each position, element swap, handle/drained-element moves, lazy "
            "clones, downcast of vector / handle / drained element, type reports) x source kind x vector state; expected "
            "panic / None / Some tables evaluated on the implementation",
    "design_ref": "DESIGN.md section 7, C04"}

# ------------------------------------------------------------------------------------------ C06
FOLLOW = ["iter 0 FFFFFFF", "push 0 w0", "tpush 0", "pop 0 drop", "insert 0 0 r0", "remove 0 0 drop", "iter 0 BBBBBBBB",
          "drain 0 u u e F:drop drop", "push 0 w0", "clear 0", "push 0 w0"]

def fault_targets(L, cl):
    ops = ["clear 0", "pop 0 drop", "tpop 0", "push 0 w1", "insert 0 1 w1", "pop 0 dc1", "pop 0 swap0", "pop 0 swap1"]
    for i in sorted(set([0, L // 2, max(L - 1, 0)])):
        ops += ["remove 0 %d drop" % i, "swapremove 0 %d drop" % i, "remove 0 %d push2" % i, "remove 0 %d swap0" % i,
                "wswap 0 %d 0" % i, "tassign 0 %d" % i]
    if cl:
        ops += ["push 0 l1.0.1", "insert 0 0 l1.1.2", "insert 0 %d l1.0.1" % L, "insert 0 %d l1.0.3" % (L // 2),
                "pop 0 lazy1.2", "remove 0 0 lazy1.3", "clone 0", "pop 1 lazy0.2"]
    for (lo, hi) in [("u", "u"), ("i1", "e%d" % max(L - 1, 1)), ("i0", "e%d" % min(2, L))]:
        for typed in "et":
            for eats in ["-", "F:drop", "B:drop,F:drop", "F:dc0,B:drop,B:drop"] + (["F:swap0", "B:push2", "F:lazy1.1" if cl else "F:drop"] if typed == "e" else []):
                ops.append("drain 0 %s %s %s %s drop" % (lo, hi, typed, eats))
                for repl in (["w0", "w0"], ["r0"], ["w0", "w1", "w0"], ["r0", "r1"]) + ((["l1.0.1", "w0", "l1.1.1"],) if cl and "1" not in eats.replace("l1", "") else ()):
                    if typed == "t" and any(x != "w0" for x in repl): continue
                    if any(x.startswith("l1") for x in repl) and ("push1" in eats or "lazy1" in eats or "ins1" in eats): continue
                    # a sink that panics drops the Splice while unwinding; a mismatched replacement then panics a second
                    # time (process abort by design of panicking destructors): keep those two apart
                    if any(x.endswith("1") and x[0] in "wr" for x in repl) and eats != "-": continue
                    ops.append("splice 0 %s %s %s %s +0 %s drop" % (lo, hi, typed, ",".join(repl), eats))
    ops += ["dropvec 0", "release"]
    return ops

def gen_c06(tier, seed):
    rng = random.Random(seed * 1000003 + 6)
    cases = []; n = 0
    q = tier == "quick"
    lays = [G.CORE_LAYOUT, (3, 1, 1), (160, 32, 1), (0, 1, 1)] if q else [l for l in G.LAYOUTS if l[2]]
    kinds = [("heap", "clone"), ("reloc", "clone")] if q else [("heap", "clone"), ("reloc", "clone"), ("stack:512", "clone"), ("heap", "none")]
    for layout in lays:
        for bk, tr in (kinds if layout == G.CORE_LAYOUT or not q else kinds[:1]):
            cl = "clone" in tr
            for L in ([3] if q else [1, 3, 4]):
                cap = G.kind_cap(bk, layout[0])
                # a splice that outgrows a fixed capacity panics in `Splice::drop`; together with an injected panic that is a
                # panic while unwinding = process abort by the language's rules, not a statement about the crate
                if cap is not None and cap < L + 3: continue
                for op in fault_targets(L, cl):
                    if op.startswith("clone") and not cl: continue
                    for k in range(1, (7 if q else 10)):
                        c = G.Case("flt%d" % n, layout); n += 1
                        G.setup3(c, bk, tr, L, rng)
                        if op == "release": c.add("pop 0 dc0"); c.add("pop 0 dc0")
                        c.add(op, fault=k)
                        if not op.startswith("dropvec"):
                            for f in FOLLOW: c.add(f)
                            c.finish(list(range(c.nvec)) if not op.startswith("clone") else list(range(c.nvec + 1)))
                        else:
                            c.finish([1, 2])
                        cases.append(c)
    # replacement iterators that misreport their length
    for layout in lays[:2]:
        for bk, tr in kinds[:2]:
            for L in [0, 3]:
                for (lo, hi) in [("u", "u"), ("i1", "e2"), ("i0", "e0"), ("i%d" % L, "u")]:
                    if G  and shadow_valid(L, lo, hi) is None: continue
                    for typed in "et":
                        for repl in (["w0"], ["w0", "w0", "w0"], ["r0", "w0"], []):
                            if typed == "t" and any(x != "w0" for x in repl): continue
                            for claim in (-2, -1, 1, 2):
                                for eats in ("-", "F:drop", "B:dc0"):
                                    c = G.Case("lie%d" % n, layout); n += 1
                                    G.setup3(c, bk, tr, L, rng)
                                    c.add("splice 0 %s %s %s %s %+d %s drop" % (lo, hi, typed, ",".join(repl) or "-", claim, eats))
                                    for f in FOLLOW: c.add(f)
                                    teardown(c); cases.append(c)
    return cases

def shadow_valid(L, lo, hi):
    from shadow import math_range
    return math_range(L, lo, hi)

PROPS["C06"] = {"gen": gen_c06, "proj": {}, "kinds": OWN | SEM | {"capacity", "crash"},
    "rule": "for each (vector state, operation instance) the k-th user-code call (element Drop, element Clone, replacement "
            "next) is made to panic, k = 1..N+; replacement iterators claim a length off by -2..+2; afterwards the vectors are "
            "used further (iterate, push, pop, insert, remove, drain, clear) and dropped; registry + canary + shadow-Vec "
            "oracles on every following step",
    "design_ref": "DESIGN.md section 7, C06"}

# ------------------------------------------------------------------------------------------ C07
def gen_c07(tier, seed):
    rng = random.Random(seed * 1000003 + 7)
    cases = []; n = 0
    q = tier == "quick"
    lays = [G.CORE_LAYOUT, (8, 8, 0), (3, 1, 1), (0, 1, 1), (160, 32, 1)] if q else G.LAYOUTS
    for layout in lays:
        for bk, tr in ([("heap", "clone"), ("reloc", "clone"), ("stack:512", "clone")] if layout == G.CORE_LAYOUT else [("heap", "clone")]):
            for L in ([0, 1, 3] if q else [0, 1, 2, 3, 5]):
                ops = ["pop 0 forget"]
                for i in range(L + 1): ops += ["remove 0 %d forget" % i, "swapremove 0 %d forget" % i]
                for s in range(L + 1):
                    for e in range(s, L + 1):
                        r = e - s
                        pats = {""}
                        for f in range(r + 1):
                            for b in range(r + 1 - f):
                                pats.add("F" * f + "B" * b); pats.add("B" * b + "F" * f)
                        for cs in sorted(pats):
                            for typed in "et":
                                eats = ",".join("%s:%s" % (ch, rng.choice(["drop", "dc0"])) for ch in cs) or "-"
                                ops.append("drain 0 i%d e%d %s %s forget" % (s, e, typed, eats))
                                if cs:
                                    # a yielded item is forgotten, the iterator dropped normally
                                    ee = eats.split(","); ee[rng.randrange(len(ee))] = ee[0][:2] + "forget"
                                    ops.append("drain 0 i%d e%d %s %s drop" % (s, e, typed, ",".join(ee)))
                                repl = rng.choice([[], ["w0"], ["w0", "w0", "w0"]] + ([] if typed == "t" else [["r0", "w0"]]))
                                ops.append("splice 0 i%d e%d %s %s +0 %s forget" % (s, e, typed, ",".join(repl) or "-", eats))
                for op in ops:
                    c = G.Case("fg%d" % n, layout); n += 1
                    G.setup3(c, bk, tr, L, rng)
                    c.add(op)
                    for f in FOLLOW: c.add(f)
                    teardown(c); cases.append(c)
    return cases

PROPS["C07"] = {"gen": gen_c07, "proj": {}, "kinds": OWN | SEM | {"forget-prefix", "capacity", "crash"},
    "rule": "for every (state, pop/remove/swap_remove/drain/splice instance): mem::forget of the handle or iterator at every "
            "stage (immediately, after f front / b back items) or of a yielded item, followed by further operations and drop; "
            "oracles: prefix before the affected index unchanged, nothing duplicated / destroyed twice / resurrected",
    "design_ref": "DESIGN.md section 7, C07"}

# ------------------------------------------------------------------------------------------ C08
CLONE_KINDS = [("heap", "clone"), ("reloc", "clone"), ("stack:48", "clone"), ("stack:512", "clone"), ("stackn:2:48", "clone"),
               ("stackn:3:512", "clone"), ("empty", "clone")]
AFTER = ["push {v} w0", "tpush {v}", "pop {v} drop", "insert {v} 0 r0", "remove {v} 0 drop", "swapremove {v} 0 dc0", "clear {v}",
         "drain {v} u u e F:drop drop", "splice {v} u u t w0 +0 - drop", "wswap {v} 0 0", "tassign {v} 0", "swapb {v} 0 1",
         "reserve {v} 3", "shrinktofit {v}", "dropvec {v}"]

def gen_c08(tier, seed):
    rng = random.Random(seed * 1000003 + 8)
    cases = []; n = 0
    q = tier == "quick"
    lays = [G.CORE_LAYOUT, (8, 8, 0), (0, 1, 1), (1, 1, 1), (160, 32, 1), (64, 64, 1)] if q else G.LAYOUTS
    for layout in lays:
        kinds = CLONE_KINDS + ([(b, t) for (b, t) in G.EXTRA_KINDS if "clone" in t] if layout[:2] == (8, 8) else [])
        for bk, tr in kinds:
            cap = G.kind_cap(bk, layout[0])
            if cap is not None and cap < 0: continue
            for L in ([0, 1, 2, 3] if q else [0, 1, 2, 3, 4, 6]):
                if cap is not None and L > cap: continue
                variants = [("clone 0", 1)]
                if tr == "clone": variants += [("cloneempty 0", 1)] + [("cloneemptyin 0 %s" % t, 1) for t in ("heap", "stack:48", "stackn:2:48", "reloc")]
                for mk, _ in variants:
                    if "cloneemptyin" in mk and (G.kind_cap(mk.split()[-1], layout[0]) or 0) < 0: continue
                    afters = AFTER if (layout == G.CORE_LAYOUT or not q) else AFTER[:4]
                    for a in afters:
                        for who in (0, 1):
                            if a.startswith(("reserve", "shrink")) and who == 0 and cap is not None: continue
                            if a.startswith(("reserve", "shrink")) and who == 1 and not (("cloneemptyin" in mk and mk.split()[-1] in ("heap", "reloc")) or ("cloneemptyin" not in mk and cap is None)): continue
                            c = G.Case("cl%d" % n, layout); n += 1
                            v0 = c.new(0, bk, tr); G.fill(c, v0, L, rng)
                            c.add(mk); c.nvec += 1
                            c.add("info 1"); c.add("probe 1")
                            tl = L if (who == 0 or mk == "clone 0") else 0
                            if a.startswith("swapb") and tl < 2: continue
                            c.add(a.format(v=who))
                            live = [0, 1]
                            if a.startswith("dropvec"): live.remove(who)
                            for x in live: c.add("probe %d" % x)
                            if "cloneempty" in mk and 1 in live:
                                c.add("push 1 w0"); c.add("push 1 l0.0.1" if (L > 0 and 0 in live) else "push 1 r0"); c.add("clone 1"); c.nvec += 1; live.append(2)
                            c.finish(live); cases.append(c)
        # fixed-capacity sources at every length up to the capacity (small capacities that are not powers of two included):
        # the clone has to fit whenever the source does, whatever room the clone asks for
        for bk, tr in kinds:
            cap = G.kind_cap(bk, layout[0])
            if cap is None or cap < 2 or cap > 8 or "clone" not in tr: continue
            for L in range(4, cap + 1):
                c = G.Case("cl%d" % n, layout); n += 1
                v0 = c.new(0, bk, tr); G.fill(c, v0, L, rng)
                c.add("clone 0"); c.nvec += 1
                c.add("info 1"); c.add("probe 1"); c.add("probe 0")
                c.finish([0, 1]); cases.append(c)
    return cases

PROPS["C08"] = {"gen": gen_c08, "proj": {}, "kinds": SEM | OWN | {"clone-accounting", "capacity"},
    "rule": "every vector state up to the bound x every Cloneable constraint set x every backend: clone / clone_empty / "
            "clone_empty_in(every target backend), then every single operation on the original and on the clone, then both are "
            "inspected through three views; clone lineage (each source element cloned exactly once) from the registry",
    "design_ref": "DESIGN.md section 7, C08"}

# ------------------------------------------------------------------------------------------ C09
def gen_c09(tier, seed):
    rng = random.Random(seed * 1000003 + 9)
    cases = []; n = 0
    q = tier == "quick"
    # element types without drop glue have an observable `Clone` too (clone events, fresh identities)
    lays = G.LAYOUTS if not q else [G.CORE_LAYOUT, (1, 1, 1), (12, 4, 1), (160, 32, 1), (0, 1, 1), (8, 8, 0), (2, 1, 0), (24, 8, 0)]
    for layout in lays:
        for L in ([1, 3] if q else [1, 2, 3, 4]):
            ops = []
            for i in range(L):
                for d in (1, 2, 3):
                    # consumption by downcast: right type (k times), wrong type
                    ops += [["lazydc 0 %d %d 0" % (i, d)] * k for k in (1, 2)]
                    ops += [["lazydc 0 %d %d 1" % (i, d), "lazydc 0 %d %d 0" % (i, d)]]
                    ops += [["push 1 l0.%d.%d" % (i, d)] * k for k in (1, 2, 3)]
                    ops += [["insert 1 %d l0.%d.%d" % (j, i, d)] for j in (0, 1, 2)]
                    ops += [["splice 1 i0 e1 e l0.%d.%d,w0,l0.%d.%d +0 - drop" % (i, d, (i + 1) % L, d)]]
            for hk in ["pop 0", "remove 0 0", "swapremove 0 0", "remove 0 %d" % (L - 1)]:
                for k in (0, 1, 2, 3): ops.append(["%s lazy1.%d" % (hk, k)])
            for k in (0, 1, 2, 3):
                ops.append(["drain 0 u u e F:lazy1.%d,B:lazy1.%d drop" % (k, k)])
                ops.append(["drain 0 i0 e1 e F:lazy1.%d drop" % k])
            ops.append(["get 0 0", "at 0 0", "iter 0 FF"])          # creating/dropping references clones nothing
            ops.append(["lazydc 0 %d 1 0" % L])                       # out of range: `at` panics, nothing cloned
            for seq in ops:
                c = G.Case("lz%d" % n, layout); n += 1
                # (a fixed-capacity source must be able to hold the L elements the references point into)
                bks = [b for b in ("heap", "reloc", "stack:512") if G.kind_cap(b, layout[0]) is None or G.kind_cap(b, layout[0]) >= L]
                v0 = c.new(0, rng.choice(bks), "clone"); v1 = c.new(0, "heap", "clone")
                G.fill(c, v0, L, rng); G.fill(c, v1, 2, rng)
                for o_ in seq: c.add(o_)
                c.add("probe 0"); c.add("probe 1"); c.add("iter 0 FFFFF")
                teardown(c); cases.append(c)
    return cases

PROPS["C09"] = {"gen": gen_c09, "proj": {}, "kinds": SEM | {"clone-accounting", "drop-accounting"} | OWN,
    "rule": "all cloneable source kinds (element reference, removal handle, drained element) x consumption kinds (push, insert, "
            "splice item, downcast) x chain depth 1..3 x consumptions 0..3, from every vector state, element types with and without drop glue; clone lineage: each consumption is "
            "exactly one clone of the root element, creation/drop of a lazy clone is no event",
    "design_ref": "DESIGN.md section 7, C09"}

# ------------------------------------------------------------------------------------------ C10
def gen_c10(tier, seed):
    rng = random.Random(seed * 1000003 + 10)
    cases = []; n = 0
    q = tier == "quick"
    M = 2**64 - 1; I = 2**63 - 1
    lays = [G.CORE_LAYOUT, (0, 1, 1), (1, 1, 0), (3, 1, 1), (24, 8, 1), (160, 32, 1)] if q else G.LAYOUTS
    for layout in lays:
        for bk in ("heap", "reloc"):
            B = 4 if q else 6
            for L in range(0, B + 1):
                for C in sorted(set([L, L + 1, L + 3])):
                    big = [M, M - 1, M - 2, M - L, min(M, M - L + 1), I + 1, I // max(layout[0], 1) + 1, min(M, (M // max(layout[0], 1)) + 1)]
                    if layout[0] == 0: big += [I, I - 1, 12345678901234]
                    args = list(range(0, B + 3)) + big
                    ops = ["shrinktofit 0"] + ["%s 0 %d" % (k, a) for k in ("reserve", "reserveexact", "shrinkto") for a in args]
                    for op in ops:
                        c = G.Case("cap%d" % n, layout); n += 1
                        c.new(0, bk, "clone", cap=C) if C > 0 else c.new(0, bk, "clone")
                        G.fill(c, 0, min(L, C) if C > 0 else 0, rng)
                        if C == 0 and L > 0: G.fill(c, 0, L, rng)
                        c.add(op); c.add("info 0"); c.add("probe 0"); c.add("push 0 w0"); c.add("shrinktofit 0"); c.add("probe 0")
                        teardown(c); cases.append(c)
            from shadow import resize_outcome
            for C in [0, 1, 5, 64, M, I + 1, I // max(layout[0], 1) + 1] + ([I, 2**40] if layout[0] == 0 else []):
                c = G.Case("cap%d" % n, layout); n += 1
                c.new(0, bk, "clone", cap=C)
                if resize_outcome(bk, layout[0], layout[1], 0, C) == "ok":
                    c.add("info 0"); c.add("push 0 w0"); c.add("info 0"); teardown(c)
                else:
                    c.finish([])
                cases.append(c)
        # amortised growth: a long push run
        for bk in ("heap", "reloc"):
            c = G.Case("cap%d" % n, layout); n += 1
            c.new(0, bk, "clone")
            # long enough to take the block beyond two pages (a growth policy that changes with the block size shows)
            npush = min(max(2 * 4096 // max(layout[0], 1) + 40, 200), 1200 if q else 9000)
            if layout[0] == 1: npush = 200        # one-byte identities wrap at 256
            for _ in range(npush): c.add(rng.choice(["push 0 w0", "tpush 0", "push 0 r0"]))
            teardown(c); cases.append(c)
    # capacity calls interleaved with element-wise operations
    for i in range(30 if q else 200):
        layout = G.LAYOUTS[i % len(G.LAYOUTS)]
        cases.append(G.rand_history(rng, "caph%d" % i, layout, [("heap", "clone"), ("reloc", "clone")], 150 if q else 800, 40, caps=True))
    return cases

PROPS["C10"] = {"gen": gen_c10, "proj": {"want_cap": True, "want_alloc": True, "want_mem": True},
    "kinds": {"capacity", "vec-semantics", "crash", "alloc-protocol"},
    "release_subset": lambda c: c.name.startswith("cap") and any(len(l) > 30 and l.split()[0] in ("reserve", "reserveexact", "shrinkto", "withcap") for l in c.lines),
    "rule": "every (len, capacity) state up to the bound x every argument 0..bound+2 and near usize::MAX / isize::MAX (also divided "
            "by the element size) for reserve / reserve_exact / shrink_to / shrink_to_fit / with_capacity, on Heap and the "
            "instrumented resizable backend, dev and release profile; push runs for amortisation; capacity calls interleaved with "
            "random element-wise histories; capacity promises evaluated on the implementation",
    "design_ref": "DESIGN.md section 7, C10"}

# ------------------------------------------------------------------------------------------ C11
def gen_c11(tier, seed):
    rng = random.Random(seed * 1000003 + 11)
    cases = []; n = 0
    q = tier == "quick"
    stack_kinds = [("stack:48", "clone"), ("stack:512", "clone"), ("stackn:2:48", "clone"), ("stackn:3:512", "clone"), ("empty", "clone")]
    for layout in G.LAYOUTS:
        kinds = stack_kinds + ([k for k in G.EXTRA_KINDS if k[0].startswith("stack")] if layout[:2] == (8, 8) else [])
        for bk, tr in kinds:
            cap = G.kind_cap(bk, layout[0])
            c = G.Case("st%d" % n, layout); n += 1
            c.new(0, bk, tr); 
            if cap >= 0: c.add("info 0"); c.add("views 0"); c.finish([0])
            else: c.finish([])
            cases.append(c)
            if cap < 0 or cap > 70: 
                if cap > 70:
                    # large / unbounded capacity: behave as the heap on ordinary histories
                    cases.append(G.rand_history(rng, "sth%d" % n, layout, [(bk, tr)], 60 if q else 300, 20, nvecs=2)); n += 1
                continue
            Ls = sorted(set([max(cap - 1, 0), cap])) if q else sorted(set([0, max(cap - 2, 0), max(cap - 1, 0), cap]))
            for L in Ls:
                ops = ["push 0 w0", "push 0 r0", "tpush 0", "insert 0 0 w0", "insert 0 %d r0" % L, "tinsert 0 %d" % (L // 2),
                       "push 0 l1.0.1", "pop 1 push0", "remove 1 0 ins0.0", "clone 0", "pop 0 drop", "remove 0 0 dc0"]
                for s, e in sorted(set([(0, 0), (0, L), (L, L), (0, min(1, L)), (max(L - 1, 0), L)])):
                    for k in (0, 1, 2, 3):
                        if L - (e - s) + k > cap + 1: continue
                        for typed in "et":
                            repl = ["w0"] * k if typed == "t" else [rng.choice(["w0", "r0"]) for _ in range(k)]
                            ops.append("splice 0 i%d e%d %s %s +0 %s drop" % (s, e, typed, ",".join(repl) or "-", rng.choice(["-", "F:drop", "B:dc0"])))
                for op in ops:
                    c = G.Case("st%d" % n, layout); n += 1
                    v0 = c.new(0, bk, tr); v1 = c.new(0, "stack:512", "clone") if G.kind_cap("stack:512", layout[0]) >= 2 else c.new(0, "stack:48", "clone")
                    G.fill(c, v0, L, rng); G.fill(c, v1, min(2, G.kind_cap("stack:512", layout[0])), rng)
                    c.add(op); 
                    if op.startswith("clone"): c.nvec += 1
                    c.add("probe 0"); c.add("info 0")
                    teardown(c); cases.append(c)
    return cases

PROPS["C11"] = {"gen": gen_c11, "proj": {"want_cap": True, "want_alloc": True},
    "kinds": {"capacity", "vec-semantics", "heap-use", "crash"} | OWN,
    "rule": "Stack<SIZE> / StackN<N,SIZE> over grids around multiples of the element size for every layout: reported capacity, "
            "construction panic, every push/insert/splice/clone/move-in whose result length is capacity-1, capacity, capacity+1; "
            "only stack-backed vectors are alive, so any allocator call is a finding; shadow Vec for the results",
    "design_ref": "DESIGN.md section 7, C11"}

# ------------------------------------------------------------------------------------------ C12
def gen_c12(tier, seed):
    rng = random.Random(seed * 1000003 + 12)
    cases = []; n = 0
    q = tier == "quick"
    for layout in G.LAYOUTS:
        kinds = G.CORE_KINDS + (G.EXTRA_KINDS if layout[:2] == (8, 8) else [])
        for bk, tr in kinds:
            cap = G.kind_cap(bk, layout[0])
            if cap is not None and cap < 0: continue
            for L in ([0, 1, 3] if q else [0, 1, 2, 3, 5]):
                if cap is not None and L > cap: continue
                for extra in (0, 2):
                    if extra and cap is not None: continue
                    c = G.Case("vw%d" % n, layout); n += 1
                    c.new(0, bk, tr); G.fill(c, 0, L, rng)
                    if extra: c.add("reserve 0 %d" % extra)
                    c.add("views 0"); c.add("probe 0"); c.add("info 0")
                    if bk in ("heap", "reloc", "empty"):
                        # the storage pointer a vector is rebuilt around (from_raw_parts trusts the handle): same extents, same alignment
                        c.add("rawrt 0"); c.add("views 0"); c.add("probe 0")
                    room = (cap - L) if cap is not None else None
                    for k in (1, 2):
                        if room is not None and k > room: continue
                        if room is None: c.add("reserve 0 %d" % k)
                        c.add("setlen 0 %d %s" % (k, rng.choice("et"))); c.add("views 0"); c.add("probe 0")
                        if room is not None: room -= k
                    teardown(c); cases.append(c)
                if cap is None:
                    # back to capacity 0 after having owned a block: the views of the empty vector, then growth again
                    for how in (["clear 0", "shrinktofit 0"], ["drain 0 u u e - drop", "shrinkto 0 0"], ["clear 0", "shrinktofit 0", "push 0 w0", "pop 0 drop", "shrinktofit 0"]):
                        c = G.Case("vw%d" % n, layout); n += 1
                        c.new(0, bk, tr); G.fill(c, 0, max(L, 1), rng)
                        for h in how: c.add(h)
                        c.add("views 0"); c.add("probe 0"); c.add("info 0")
                        if rng.random() < 0.5: c.add("rawrt 0"); c.add("views 0")
                        c.add("push 0 w0"); c.add("views 0"); c.add("probe 0")
                        teardown(c); cases.append(c)
    return cases

PROPS["C12"] = {"gen": gen_c12, "proj": {"want_cap": True}, "kinds": SEM | {"memory", "crash", "capacity"} | OWN,
    "rule": "every (len, capacity) state up to the bound on every backend and layout (alignment up to 64, sizes 0/1/3/160): "
            "extent and offset of as_bytes / as_bytes_mut / spare_bytes_mut / spare_capacity_mut / typed slice, storage "
            "pointer modulo the element alignment, then values written into the spare capacity (typed and byte-wise) + set_len and "
            "the result read back through three views",
    "design_ref": "DESIGN.md section 7, C12"}

# ------------------------------------------------------------------------------------------ C13
def gen_c13(tier, seed):
    rng = random.Random(seed * 1000003 + 13)
    cases = []; n = 0
    q = tier == "quick"
    lays = G.LAYOUTS
    for layout in lays:
        for bk, tr in ([("heap", "clone"), ("reloc", "none"), ("stack:512", "clone")] if (layout == G.CORE_LAYOUT or not q) else [("heap", "clone")]):
            for L in ([0, 1, 3] if q else [0, 1, 2, 4]):
                cap = G.kind_cap(bk, layout[0])
                if cap is not None and (cap < 0 or L > cap): continue
                ops = [["get 0 %d" % i, "at 0 %d" % i] for i in range(L + 2)]
                ops += [["iter 0 " + "F" * (L + 1)], ["iter 0 " + "B" * (L + 1)]]
                for i in range(L + 1):
                    ops += [["wswap 0 %d 0" % i], ["tassign 0 %d" % i], ["wswap 0 %d 1" % i]]
                    ops += [["remove 0 %d swap0" % i], ["swapremove 0 %d swap0" % i]]
                    # a handle reports the element's size and type; the exchange with a type-erased right operand
                    ops += [["remove 0 %d info" % i], ["swapremove 0 %d swapr0" % i], ["remove 0 %d swapr1" % i]]
                    for j in range(L + 1):
                        ops += [["tswap 0 %d %d" % (i, j)]]
                        if i < L and j < L: ops += [["swapb 0 %d %d" % (i, j)]]
                        if j < 3: ops += [["eswap 0 %d 1 %d" % (i, j)], ["eswap 1 %d 0 %d" % (j, i)]]
                ops += [["eswap 0 0 2 0"], ["pop 0 swap0"], ["pop 0 swap1"], ["drain 0 u u e F:swap0,B:swap0 drop"]]
                ops += [["pop 0 swapr0"], ["pop 0 info"], ["drain 0 u u e F:swapr0,B:info drop"], ["drain 0 u u e F:info,B:swapr0 drop"]]
                for seq in ops:
                    c = G.Case("hd%d" % n, layout); n += 1
                    G.setup3(c, bk, tr, L, rng)
                    for o_ in seq: c.add(o_)
                    c.add("probe 0"); c.add("probe 1"); c.add("iter 0 " + "F" * (L + 1)); c.add("info 0")
                    teardown(c); cases.append(c)
    return cases

PROPS["C13"] = {"gen": gen_c13, "proj": {}, "kinds": SEM | OWN,
    "rule": "all indices 0..=len+1 in every state for get/at/iter; a write or swap through every handle kind (erased element "
            "reference with a typed wrapper, typed reference assignment, typed slice swap, byte view swap, element swap across two "
            "vectors in both orders, removal handle / drained element before consumption) followed by a read through the erased "
            "iterator, the typed slice and the byte view",
    "design_ref": "DESIGN.md section 7, C13"}

# ------------------------------------------------------------------------------------------ C14
def gen_c14(tier, seed):
    rng = random.Random(seed * 1000003 + 14)
    cases = []; n = 0
    q = tier == "quick"
    lays = [G.CORE_LAYOUT, (0, 1, 1), (3, 1, 0), (160, 32, 1)] if q else G.LAYOUTS
    for layout in lays:
        for L in ([0, 1, 2, 3, 4] if q else [0, 1, 2, 3, 4, 5, 6]):
            c = G.Case("it%d" % n, layout); n += 1
            c.new(0, "heap", "clone"); G.fill(c, 0, L, rng)
            for cs in G.choice_strings(L, 2, rng, cap=200 if q else 600): c.add("iter 0 %s" % (cs or "-"))
            # a clone taken after any prefix of calls continues exactly like the original
            strs = list(G.choice_strings(L, 1, rng, cap=40 if q else 120))
            for pre in strs:
                for post in rng.sample(strs, min(len(strs), 4 if q else 10)):
                    c.add("iterc 0 %s %s" % (pre or "-", post or "-"))
            teardown(c); cases.append(c)
            for s in range(L + 1):
                for e in range(s, L + 1):
                    # the range in every `RangeBounds` spelling (included / excluded / unbounded on either side), in turn
                    forms = G.range_forms(s, e, L)
                    for k, cs in enumerate(G.choice_strings(e - s, 2, rng, cap=10 if q else 40)):
                        lo, hi = forms[k % len(forms)]
                        for typed in "et":
                            eats = ",".join("%s:drop" % ch for ch in cs) or "-"
                            c = G.Case("it%d" % n, layout); n += 1
                            c.new(0, "heap", "clone"); G.fill(c, 0, L, rng)
                            c.add("drain 0 %s %s %s %s drop" % (lo, hi, typed, eats)); c.add("probe 0")
                            teardown(c); cases.append(c)
                            c = G.Case("it%d" % n, layout); n += 1
                            c.new(0, "heap", "clone"); G.fill(c, 0, L, rng)
                            c.add("splice 0 %s %s %s w0 +0 %s drop" % (lo, hi, typed, eats)); c.add("probe 0")
                            teardown(c); cases.append(c)
    return cases

PROPS["C14"] = {"gen": gen_c14, "proj": {}, "kinds": SEM,
    "rule": "every state up to the bound, every sub-range for drain/splice (erased and typed; the range spelt in every RangeBounds form in turn), every next/next_back "
            "interleaving up to range length + 2 calls (all 2^n strings while small, sampled beyond): yielded element and "
            "len()/size_hint at every step, None after exhaustion; clones of an iterator taken after every prefix of calls",
    "design_ref": "DESIGN.md section 7, C14"}

# ------------------------------------------------------------------------------------------ C17
def gen_c17(tier, seed):
    rng = random.Random(seed * 1000003 + 17)
    cases = []; n = 0
    q = tier == "quick"
    for layout in G.LAYOUTS:
        kinds = [("heap", "clone"), ("heap", "none"), ("reloc", "clone"), ("empty", "clone")] + ([k for k in G.EXTRA_KINDS if k[0] == "heap"] if layout[:2] == (8, 8) else [])
        for bk, tr in kinds:
            for L in ([0, 1, 3] if q else [0, 1, 2, 3, 5]):
                if bk == "empty" and L > 0: continue
                afters = ["push 0 w0", "tpush 0", "pop 0 drop", "insert 0 0 r0", "remove 0 0 dc0", "clear 0", "drain 0 u u e F:drop drop",
                          "splice 0 u u e w0,r0 +0 - drop", "iter 0 FFFF", "rawrt 0", "rawparts 0"] + (["clone 0"] if "clone" in tr else []) \
                         + (["reserve 0 5", "shrinktofit 0"] if bk != "empty" else [])
                for a in afters:
                    for first in ("rawrt 0", "rawparts 0"):
                        c = G.Case("rp%d" % n, layout); n += 1
                        c.new(0, bk, tr); G.fill(c, 0, L, rng)
                        if bk != "empty" and rng.random() < 0.5: c.add("reserve 0 2")
                        c.add("info 0"); c.add(first); c.add("info 0"); c.add("probe 0")
                        c.add(a)
                        if a.startswith("clone"): c.nvec += 1
                        c.add("rawrt 0"); c.add("probe 0"); c.add("info 0"); c.add("views 0")
                        teardown(c); cases.append(c)
    return cases

PROPS["C17"] = {"gen": gen_c17, "proj": {"want_cap": True, "want_alloc": True, "want_mem": True},
    "kinds": SEM | OWN | {"capacity", "alloc-protocol", "rawparts"},
    "rule": "every state up to the bound x constraint set x {Heap, Empty, user backend}: into_raw_parts / field-wise clone / "
            "from_raw_parts round trips (no destructor, clone or allocator event may occur; reported fields must equal the "
            "vector's), repeated and interleaved with every element-wise operation, then inspected through three views",
    "design_ref": "DESIGN.md section 7, C17"}

# ------------------------------------------------------------------------------------------ C18
def gen_c18(tier, seed):
    rng = random.Random(seed * 1000003 + 18)
    cases = []
    q = tier == "quick"
    heap = [("heap", "clone"), ("heap", "none")]
    lays = [G.CORE_LAYOUT, (0, 1, 1), (1, 1, 1), (3, 1, 0), (16, 16, 1), (64, 64, 1), (160, 32, 1)] if q else G.LAYOUTS
    cases += list(G.gen_elementwise(rng, lays, heap[:1], [0, 1, 3] if q else [0, 1, 2, 3, 4], tag="al"))
    cases += list(G.gen_ranges(rng, lays[:3] if q else lays, heap[:1], [0, 3], "alr", strings_cap=4))
    for i in range(40 if q else 300):
        layout = G.LAYOUTS[i % len(G.LAYOUTS)]
        cases.append(G.rand_history(rng, "alh%d" % i, layout, heap, 150 if q else 1000, 40 if q else 150, ranges=True, clones=True, caps=True))
    cases += [c for c in gen_c10(tier, seed) if any(l.startswith(("new 0 heap", "withcap 0 heap")) for l in c.lines)]
    return cases

PROPS["C18"] = {"gen": gen_c18, "proj": {"want_cap": True, "want_alloc": True},
    "kinds": {"alloc-protocol", "memory", "leak", "crash", "capacity"},
    "release_subset": PROPS["C10"]["release_subset"],
    "rule": "C01/C02/C10 histories on the Heap backend under the instrumented global allocator (every realloc moves, released "
            "memory poisoned, layouts checked against the live block): at most one block per vector of exactly capacity x size "
            "bytes with the element alignment, none when that is zero; capacity requests over the usize range at the overflow "
            "boundaries in dev and release profile; no block live at the end",
    "design_ref": "DESIGN.md section 7, C18"}

# ------------------------------------------------------------------------------------------ C05
def gen_c05(tier, seed):
    rng = random.Random(seed * 1000003 + 5)
    cases = []
    q = tier == "quick"
    kinds = [("reloc", "clone"), ("heap", "clone"), ("reloc", "none")]
    lays = [G.CORE_LAYOUT, (1, 1, 1), (3, 1, 0), (12, 4, 1), (64, 64, 1), (160, 32, 1), (0, 1, 1)] if q else G.LAYOUTS
    cases += list(G.gen_elementwise(rng, lays, kinds[:1], [0, 1, 3] if q else [0, 1, 2, 3, 4], tag="mem"))
    cases += list(G.gen_ranges(rng, lays[:4] if q else lays, kinds[:2], [0, 3] if q else [0, 2, 4], "memr", strings_cap=5))
    for c in gen_c08(tier, seed):
        if any(l.startswith("new 0 reloc") for l in c.lines): cases.append(c)
    for i in range(40 if q else 300):
        layout = G.LAYOUTS[i % len(G.LAYOUTS)]
        cases.append(G.rand_history(rng, "memh%d" % i, layout, kinds, 200 if q else 1200, 40 if q else 150, ranges=True, clones=True, caps=True))
    # a capacity request the backend refuses (byte size overflow, beyond isize::MAX, beyond the user backend's limit), the panic
    # caught, and the vector used on: its bookkeeping must still describe the block it really has
    k = 0
    for c in gen_c10(tier, seed):
        big = [l for l in c.lines if l.split()[0] in ("reserve", "reserveexact", "shrinkto") and len(l.split()[-1]) > 12]
        if not big: continue
        k += 1
        if q and k % 3: continue
        c2 = G.Case("memcap%d" % k, (c.size, c.align, c.drop))
        c2.nvec = c.nvec
        for l in c.lines:
            if l in ("release", "end") or l.startswith("dropvec"): continue
            c2.lines.append(l)
            if l in big:
                # fill past the old capacity, shift, read back through every view
                for _ in range(6): c2.lines.append("push 0 w0")
                c2.lines += ["insert 0 0 r0", "probe 0", "views 0", "remove 0 1 drop", "iter 0 FFFFFFFFFF"]
        c2.finish(list(range(c2.nvec)))
        cases.append(c2)
    return cases

PROPS["C05"] = {"gen": gen_c05, "proj": {"want_cap": True, "want_mem": True, "want_alloc": True},
    "kinds": {"memory", "crash", "capacity", "mem-protocol", "alloc-protocol", "leak"} | OWN,
    "rule": "C01/C02/C08 histories on the instrumented user backend (relocates on every capacity change, poison-fills fresh and "
            "released memory, guard zones, quarantine) and on Heap under the instrumented allocator, all layouts; compared with "
            "the model's backend call trace (build once, expand/resize arguments, drop once last); canaries, guard zones, "
            "quarantine and poison are checked by the harness after the fact",
    "design_ref": "DESIGN.md section 7, C05"}
