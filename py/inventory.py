"""inventory of trait-method implementations in /repo/src: for every `impl Trait for Type` block the sorted names of the
functions it defines. An override of a provided trait method (`Iterator::nth`, `Mem::expand_exact`, `Clone::clone_from` …)
changes what existing callers get without touching any function the translator knows; it changes this table.
New inherent methods and new free functions are new API and are not part of it."""
import os, re, json
from collections import Counter

def strip(txt):
    txt = re.sub(r"/\*.*?\*/", lambda m: " " * 0 + re.sub(r"[^\n]", " ", m.group(0)), txt, flags=re.S)
    txt = re.sub(r"//[^\n]*", "", txt)
    txt = re.sub(r'"(\\.|[^"\\])*"', '""', txt)
    txt = re.sub(r"'(\\.|[^'\\])'", "' '", txt)      # char literals such as '{'
    return txt

def norm_header(h):
    h = re.sub(r"\s+", " ", h).strip()
    h = re.sub(r"\bwhere\b.*$", "", h).strip()          # bounds are C15's business
    # drop the generic parameter list right after `impl`
    i0 = h.find("impl<")
    if i0 >= 0:
        d = 0
        for i, ch in enumerate(h[i0 + 4:], i0 + 4):
            if ch == "<": d += 1
            elif ch == ">":
                d -= 1
                if d == 0: h = h[:i0 + 4] + h[i + 1:]; break
    h = re.sub(r"\s+", " ", h).strip()
    return h

def blocks_of(txt):
    """(header, body) of every top-level `impl` / `trait` block"""
    out = []
    for m in re.finditer(r"\b(unsafe\s+)?(impl|(?:pub(?:\([a-z]+\))?\s+)?(?:unsafe\s+)?trait)\b", txt):
        j = txt.find("{", m.end())
        if j < 0: continue
        header = txt[m.start():j]
        if ";" in header: continue
        depth = 0; k = j
        while k < len(txt):
            if txt[k] == "{": depth += 1
            elif txt[k] == "}":
                depth -= 1
                if depth == 0: break
            k += 1
        out.append((header, txt[j:k + 1]))
    return out

def scan(src_root):
    """file -> sorted [header, fn names]: every `impl Trait for Type` block with all its functions, and every inherent
    `impl Type` block with those of its functions whose NAME is also a trait method's somewhere in the crate (method-call
    syntax prefers the inherent one: a new one silently replaces the trait method for existing callers)"""
    texts = {}
    for root, _, fs in os.walk(src_root):
        for f in sorted(fs):
            if f.endswith(".rs"):
                p = os.path.join(root, f)
                texts[os.path.relpath(p, src_root)] = strip(open(p).read())
    fn_re = r"\bfn\s+([A-Za-z_][A-Za-z0-9_]*)"
    trait_names = set()
    for rel, txt in texts.items():
        for header, body in blocks_of(txt):
            h = re.sub(r"\s+", " ", header)
            if re.search(r"\btrait\b", h) or " for " in h:
                trait_names.update(re.findall(fn_re, body))
    inv = {}
    for rel, txt in texts.items():
        blocks = []
        for header, body in blocks_of(txt):
            h = re.sub(r"\s+", " ", header)
            if re.search(r"\btrait\b", h.split("{")[0]) and not h.lstrip().startswith(("impl", "unsafe impl")): continue
            names = sorted(re.findall(fn_re, body))
            if " for " in h: blocks.append([norm_header(header), names])
            else:
                shadow = [n for n in names if n in trait_names]
                blocks.append(["inherent " + norm_header(header), shadow])
        inv[rel] = sorted(blocks)
    return inv

def diff(pinned, cur, files):
    out = []
    for f in files:
        a = pinned.get(f); b = cur.get(f)
        if a is None and b is None: continue
        if a is None:
            if b: out.append("src/%s is new and implements traits: %s" % (f, "; ".join(h for h, _ in b)))
            continue
        if b is None: out.append("src/%s is gone" % f); continue
        da = {}; db = {}
        for h, n in a: da.setdefault(h, []).extend(n)
        for h, n in b: db.setdefault(h, []).extend(n)
        for h in sorted(set(da) | set(db)):
            ca, cb = Counter(da.get(h, [])), Counter(db.get(h, []))
            if ca != cb:
                added = sorted((cb - ca).elements()); removed = sorted((ca - cb).elements())
                if h.startswith("inherent "):
                    if added: out.append("src/%s: `%s` has new methods named like trait methods (%s): method-call syntax now resolves to them" % (f, h[9:], ", ".join(added)))
                elif h not in da: out.append("src/%s: new trait implementation `%s` (%s)" % (f, h, ", ".join(added) or "no functions"))
                elif h not in db: out.append("src/%s: trait implementation `%s` is gone" % (f, h))
                else: out.append("src/%s: `%s` now %s" % (f, h, "; ".join(x for x in ["overrides / adds " + ", ".join(added) if added else "", "no longer defines " + ", ".join(removed) if removed else ""] if x)))
    return out

if __name__ == "__main__":
    import sys
    json.dump(scan(sys.argv[1]), open(sys.argv[2], "w"), indent=0, sort_keys=True)
