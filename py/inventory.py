"""inventory of trait-method implementations in /repo/src: for every `impl Trait for Type` block the sorted names of the
functions it defines. An override of a provided trait method (`Iterator::nth`, `Mem::expand_exact`, `Clone::clone_from` …)
changes what existing callers get without touching any function the translator knows; it changes this table.
New inherent methods and new free functions are new API and are not part of it."""
import os, re, json
from collections import Counter

def strip(txt):
    txt = re.sub(r"/\*.*?\*/", lambda m: " " * 0 + re.sub(r"[^\n]", " ", m.group(0)), txt, flags=re.S)
    txt = re.sub(r"//[^\n]*", "", txt)
    txt = re.sub(r'"(\\.|[^"\\])*"', '""', txt)
    txt = re.sub(r"'(\\.|[^'\\])'", "' '", txt)      # char literals such as '{'
    return txt

def norm_header(h):
    h = re.sub(r"\s+", " ", h).strip()
    h = re.sub(r"\bwhere\b.*$", "", h).strip()          # bounds are C15's business
    # drop the generic parameter list right after `impl`
    i0 = h.find("impl<")
    if i0 >= 0:
        d = 0
        for i, ch in enumerate(h[i0 + 4:], i0 + 4):
            if ch == "<": d += 1
            elif ch == ">":
                d -= 1
                if d == 0: h = h[:i0 + 4] + h[i + 1:]; break
    h = re.sub(r"\s+", " ", h).strip()
    return h

def scan(src_root):
    inv = {}
    for root, _, fs in os.walk(src_root):
        for f in sorted(fs):
            if not f.endswith(".rs"): continue
            p = os.path.join(root, f); rel = os.path.relpath(p, src_root)
            txt = strip(open(p).read())
            blocks = []
            for m in re.finditer(r"\b(unsafe\s+)?impl\b", txt):
                # header up to the opening brace
                j = txt.find("{", m.end())
                if j < 0: continue
                header = txt[m.start():j]
                if ";" in header or " for " not in re.sub(r"\s+", " ", header): continue
                # `for<'a>` higher-ranked bounds are not trait impls
                depth = 0; k = j
                while k < len(txt):
                    if txt[k] == "{": depth += 1
                    elif txt[k] == "}":
                        depth -= 1
                        if depth == 0: break
                    k += 1
                body = txt[j:k + 1]
                names = sorted(re.findall(r"\bfn\s+([A-Za-z_][A-Za-z0-9_]*)", body))
                blocks.append([norm_header(header), names])
            inv[rel] = sorted(blocks)
    return inv

def diff(pinned, cur, files):
    out = []
    for f in files:
        a = pinned.get(f); b = cur.get(f)
        if a is None and b is None: continue
        if a is None:
            if b: out.append("src/%s is new and implements traits: %s" % (f, "; ".join(h for h, _ in b)))
            continue
        if b is None: out.append("src/%s is gone" % f); continue
        da = {}; db = {}
        for h, n in a: da.setdefault(h, []).extend(n)
        for h, n in b: db.setdefault(h, []).extend(n)
        for h in sorted(set(da) | set(db)):
            ca, cb = Counter(da.get(h, [])), Counter(db.get(h, []))
            if ca != cb:
                added = sorted((cb - ca).elements()); removed = sorted((ca - cb).elements())
                if h not in da: out.append("src/%s: new trait implementation `%s` (%s)" % (f, h, ", ".join(added) or "no functions"))
                elif h not in db: out.append("src/%s: trait implementation `%s` is gone" % (f, h))
                else: out.append("src/%s: `%s` now %s" % (f, h, "; ".join(x for x in ["overrides / adds " + ", ".join(added) if added else "", "no longer defines " + ", ".join(removed) if removed else ""] if x)))
    return out

if __name__ == "__main__":
    import sys
    json.dump(scan(sys.argv[1]), open(sys.argv[2], "w"), indent=0, sort_keys=True)
