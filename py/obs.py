"""Observation lines (shared format of the Rust harness and the Lean model driver)."""
import re

class Obs:
    __slots__ = ("kind", "raw", "res", "out", "vecs", "ev", "held", "name", "z")
    def __init__(self, raw):
        self.raw = raw
        self.kind = "?"
        self.res = None; self.out = []; self.vecs = {}; self.ev = []; self.held = []; self.name = None; self.z = {}

def parse_line(line):
    o = Obs(line)
    if line.startswith("C "):
        o.kind = "C"; o.name = line[2:].strip(); return o
    if line.startswith("Z "):
        o.kind = "Z"
        for t in line[2:].split():
            if "=" in t:
                k, v = t.split("=", 1)
                try: o.z[k] = int(v)
                except ValueError: o.z[k] = v
            else:
                o.z.setdefault("bad", []).append(t)
        return o
    if line.startswith("bad-op"):
        o.kind = "bad-op"; return o
    if line.startswith("R "):
        o.kind = "R"
        parts = line.split("|")
        o.res = parts[0][2:]
        for p in parts[1:]:
            if p.startswith("O "):
                o.out = [] if p[2:] == "-" else p[2:].split(",")
            elif p.startswith("V"):
                f = p.split(" ")
                k = int(f[0][1:])
                body = f[3]
                o.vecs[k] = (int(f[1]), int(f[2]), body)
            elif p.startswith("E "):
                o.ev = [] if p[2:] == "-" else p[2:].split(",")
            elif p.startswith("H "):
                o.held = [] if p[2:] == "-" else p[2:].split(",")
        return o
    return o

def body_ids(body):
    """visible id tokens of a V-line body, or None when only a hash / ZST marker is shown"""
    if body == "-": return []
    if body == "z" or body.startswith("#"): return None
    return body.split(",")

ALLOC_RE = re.compile(r"^(a|ra|da)\d")
def is_alloc_ev(e): return bool(ALLOC_RE.match(e))
def is_mem_ev(e): return e[:2] in ("mb", "me", "mr", "md")
def is_drop_ev(e): return e.startswith("d") and not e.startswith("da")
def is_clone_ev(e): return e.startswith("c")
def is_bad_ev(e): return e.startswith("BAD")

def project(o, want_cap=False, want_alloc=False, want_mem=False):
    """canonical form of an R line for model-vs-implementation comparison"""
    if o.kind != "R":
        if o.kind == "Z":
            return "Z created=%s drops=%s" % (o.z.get("created"), o.z.get("drops"))
        return o.raw
    panicked = o.res != "ok"
    vs = []
    for k in sorted(o.vecs):
        ln, cap, body = o.vecs[k]
        vs.append("V%d %d %s %s" % (k, ln, cap if want_cap else "_", body))
    drops = [e for e in o.ev if is_drop_ev(e)]
    clones = [e for e in o.ev if is_clone_ev(e)]
    if not panicked:
        drops = sorted(drops)          # destructor order is not a property
    extra = []
    if want_mem:
        extra += [e for e in o.ev if is_mem_ev(e)]
    if want_alloc and not panicked:
        extra += [e for e in o.ev if is_alloc_ev(e)]
    bad = [e for e in o.ev if is_bad_ev(e)]
    return "R %s|O %s|%s|D %s|K %s|X %s|B %s|H %s" % (
        o.res, ",".join(o.out), "|".join(vs), ",".join(drops), ",".join(clones),
        ",".join(extra), ",".join(bad), ",".join(o.held))

def alloc_subsequence_ok(model_ev, impl_ev):
    """in a panicking step the panic machinery allocates too: the model's allocator events must
    appear, in order, among the implementation's"""
    m = [e for e in model_ev if is_alloc_ev(e)]
    i = [e for e in impl_ev if is_alloc_ev(e)]
    j = 0
    for e in i:
        if j < len(m) and e == m[j]: j += 1
    return j == len(m)
