"""C15: Send/Sync/Clone constraints. The real compiler's verdicts on the full grid vs the Lean decision tables."""
import os, re, subprocess, time, itertools
import runner as R
import props as P
import static as S

SETS = [("none", "dyn None", (0, 0, 0)), ("send", "dyn Send", (1, 0, 0)), ("sync", "dyn Sync", (0, 1, 0)),
        ("send+sync", "dyn Send + Sync", (1, 1, 0)), ("clone", "dyn Cloneable", (0, 0, 1)),
        ("clone+send", "dyn Cloneable + Send", (1, 0, 1)), ("clone+sync", "dyn Cloneable + Sync", (0, 1, 1)),
        ("clone+send+sync", "dyn Cloneable + Send + Sync", (1, 1, 1))]
BACKENDS = [("heap", "Heap", (1, 1, 1, 1)), ("stack", "Stack<8>", (1, 1, 1, 1)), ("stackn", "StackN<1, 8>", (1, 1, 1, 1)),
            ("empty", "Empty", (1, 1, 1, 1)), ("bnosend", "BNoSend", (0, 1, 1, 1)), ("bnosync", "BNoSync", (1, 0, 1, 1)),
            ("mnosend", "MNoSend", (1, 1, 0, 1)), ("mnosync", "MNoSync", (1, 1, 1, 0))]
HANDLES = [("ElementRef", "ElementRef<'static, {tr}, {m}>", "shared"), ("ElementMut", "ElementMut<'static, {tr}, {m}>", "exclusive"),
           ("Element", "Element<'static, {tr}, {m}>", "exclusive"), ("IterRef", "IterRef<'static, {tr}, {m}>", "shared"),
           ("IterMut", "IterMut<'static, {tr}, {m}>", "exclusive"), ("Pop", "Pop<'static, {tr}, {m}>", "exclusive"),
           ("Remove", "Remove<'static, {tr}, {m}>", "exclusive"), ("SwapRemove", "SwapRemove<'static, {tr}, {m}>", "exclusive"),
           ("Drain", "Drain<'static, {tr}, {m}>", "exclusive"),
           ("Splice", "Splice<'static, {tr}, {m}, std::vec::IntoIter<AnyValueWrapper<u32>>>", "exclusive")]
TCLASSES = [("ss", "u32", (1, 1)), ("sendonly", "core::cell::Cell<u32>", (1, 0)), ("synconly", "SyncOnly", (0, 1)),
            ("neither", "std::rc::Rc<u32>", (0, 0))]
THANDLES = [("AnyVecRef", "AnyVecRef<'static, {t}, {m}>", "shared"), ("AnyVecMut", "AnyVecMut<'static, {t}, {m}>", "exclusive"),
            ("AnyVecTyped", "AnyVecTyped<'static, {t}, {m}>", "exclusive")]

# results whose type cannot be named (`impl Trait` over a crate-private pointer type): probed on a value
VHANDLES = [("TypedDrain", "tv.drain(..)", "exclusive"),
            ("TypedSplice", "tv.splice(.., core::iter::empty::<{t}>())", "exclusive")]

PRELUDE = r'''
#![allow(unused, dead_code)]
use any_vec::{AnyVec, AnyVecRef, AnyVecMut, AnyVecTyped, IterRef, IterMut};
use any_vec::element::{ElementRef, ElementMut, Element};
use any_vec::ops::{Pop, Remove, SwapRemove, Drain, Splice};
use any_vec::mem::*;
use any_vec::traits::*;
use any_vec::any_value::*;
use core::marker::PhantomData;
use core::alloc::Layout;

macro_rules! is {
    ($t:ty : $tr:ident) => {{
        struct W<T: ?Sized>(PhantomData<T>);
        trait No { const V: bool = false; }
        impl<T: ?Sized> No for W<T> {}
        impl<T: ?Sized + $tr> W<T> { const V: bool = true; }
        <W<$t>>::V
    }};
}
// the same question about a value whose type has no name: the inherent method wins when the bound holds
pub struct Wv<'x, T: ?Sized>(pub &'x T);
pub trait NoV { fn s(&self) -> bool { false } fn y(&self) -> bool { false } }
impl<'x, T: ?Sized> NoV for &Wv<'x, T> {}
pub trait YesS { fn s(&self) -> bool { true } }
impl<'x, T: ?Sized + Send> YesS for Wv<'x, T> {}
pub trait YesY { fn y(&self) -> bool { true } }
impl<'x, T: ?Sized + Sync> YesY for Wv<'x, T> {}
pub struct SyncOnly(PhantomData<*const ()>);
unsafe impl Sync for SyncOnly {}

macro_rules! backend {
    ($B:ident, $M:ident, [$($bi:ident),*], [$($mi:ident),*]) => {
        pub struct $B(PhantomData<*const ()>);
        impl Clone for $B { fn clone(&self) -> Self { $B(PhantomData) } }
        impl Default for $B { fn default() -> Self { $B(PhantomData) } }
        $(unsafe impl $bi for $B {})*
        pub struct $M(Layout, PhantomData<*const ()>);
        $(unsafe impl $mi for $M {})*
        impl MemBuilder for $B { type Mem = $M; fn build(&mut self, l: Layout) -> $M { $M(l, PhantomData) } }
        impl Mem for $M {
            fn as_ptr(&self) -> *const u8 { self.0.align() as *const u8 }
            fn as_mut_ptr(&mut self) -> *mut u8 { self.0.align() as *mut u8 }
            fn element_layout(&self) -> Layout { self.0 }
            fn size(&self) -> usize { 0 }
        }
    };
}
backend!(BNoSend, BNoSendMem, [Sync], [Send, Sync]);
backend!(BNoSync, BNoSyncMem, [Send], [Send, Sync]);
backend!(MNoSend, MNoSendMem, [Send, Sync], [Sync]);
backend!(MNoSync, MNoSyncMem, [Send, Sync], [Send]);
'''

def grid_program():
    lines = [PRELUDE, "fn main() {"]
    for sn, st, _ in SETS:
        for bn, bt, _ in BACKENDS:
            vt = "AnyVec<%s, %s>" % (st, bt)
            lines.append('    println!("V %s %s {} {}", is!(%s: Send) as u8, is!(%s: Sync) as u8);' % (sn, bn, vt, vt))
            for hn, ht, _ in HANDLES:
                t = ht.format(tr=st, m=bt)
                lines.append('    println!("E %s %s %s {} {}", is!(%s: Send) as u8, is!(%s: Sync) as u8);' % (sn, bn, hn, t, t))
    for tn, tt, _ in TCLASSES:
        for bn, bt, _ in BACKENDS:
            for hn, ht, _ in THANDLES:
                t = ht.format(t=tt, m=bt)
                lines.append('    println!("T %s %s %s {} {}", is!(%s: Send) as u8, is!(%s: Sync) as u8);' % (tn, bn, hn, t, t))
            for hn, expr, _ in VHANDLES:
                lines.append('    { let mut v = AnyVec::<dyn None, %s>::new::<%s>(); let mut tv = v.downcast_mut::<%s>().unwrap(); let d = %s; '
                             'println!("T %s %s %s {} {}", (&Wv(&d)).s() as u8, (&Wv(&d)).y() as u8); }' % (bt, tt, tt, expr.format(t=tt), tn, bn, hn))
    lines.append("}")
    return "\n".join(lines)

ELEMS = {}
def elem_defs():
    out = []
    for s, y, c in itertools.product((0, 1), repeat=3):
        n = "E%d%d%d" % (s, y, c)
        out.append("%spub struct %s(core::marker::PhantomData<*const ()>);" % ("#[derive(Clone)] " if c else "", n))
        if s: out.append("unsafe impl Send for %s {}" % n)
        if y: out.append("unsafe impl Sync for %s {}" % n)
        ELEMS[(s, y, c)] = n
    return "\n".join(out)

def ctor_probes():
    """(name, src, expected_ok, what)"""
    head = "#![allow(unused)]\nuse any_vec::{AnyVec, mem::*, traits::*};\n" + elem_defs() + "\n"
    ps = []
    for sn, st, (ss, sy, sc) in SETS:
        for (es, ey, ec), en in ELEMS.items():
            ok = (not ss or es) and (not sy or ey) and (not sc or ec)
            src = head + "pub fn f() { let _v: AnyVec<%s> = AnyVec::new::<%s>(); }\n" % (st, en)
            ps.append(("ctor_new_%s_%s" % (re.sub(r"\W", "_", sn), en), src, bool(ok), "AnyVec<%s>::new::<%s>()" % (st, en), (ss, sy, sc), (es, ey, ec)))
        for (es, ey, ec) in ((0, 0, 0), (1, 1, 1)):
            en = ELEMS[(es, ey, ec)]
            ok = (not ss or es) and (not sy or ey) and (not sc or ec)
            for cn, call in (("new_in", "AnyVec::<%s, Stack<8>>::new_in::<%s>(Stack::<8>)"), ("with_capacity", "AnyVec::<%s, Heap>::with_capacity::<%s>(2)"),
                             ("with_capacity_in", "AnyVec::<%s, Heap>::with_capacity_in::<%s>(2, Heap)")):
                src = head + "pub fn f() { let _v = %s; }\n" % (call % (st, en))
                ps.append(("ctor_%s_%s_%s" % (cn, re.sub(r"\W", "_", sn), en), src, bool(ok), (call % (st, en)), (ss, sy, sc), (es, ey, ec)))
    return ps

def api_probes():
    head = "#![allow(unused)]\nuse any_vec::{AnyVec, mem::*, traits::*};\n"
    ps = []
    for sn, st, (ss, sy, sc) in SETS:
        src = head + "pub fn f(v: &AnyVec<%s>) { let _c: AnyVec<%s> = v.clone(); }\n" % (st, st)
        ps.append(("api_clone_%s" % re.sub(r"\W", "_", sn), src, bool(sc), "clone() on AnyVec<%s>" % st, "K", sc))
    for bn, bt in (("heap", "Heap"), ("stack", "Stack<8>"), ("stackn", "StackN<1, 8>"), ("empty", "Empty")):
        src = head + "pub fn f(v: &mut AnyVec<dyn None, %s>) { v.reserve(1); v.reserve_exact(1); v.shrink_to_fit(); v.shrink_to(0); }\n" % bt
        ps.append(("api_reserve_%s" % bn, src, bn == "heap", "reserve/shrink on %s" % bt, "R", bn))
        src = head + "pub fn f() { let _v = AnyVec::<dyn None, %s>::with_capacity::<u8>(1); }\n" % bt
        ps.append(("api_withcap_%s" % bn, src, bn == "heap", "with_capacity on %s" % bt, "R", bn))
    return ps

def lean_table():
    rc, out = R.sh(["lake", "env", "lean", "--run", "StaticDump.lean"], cwd=R.LEAN_DIR)
    t = {"V": {}, "E": {}, "T": {}, "C": {}, "K": {}, "R": {}}
    if rc != 0: return None, out
    for ln in out.splitlines():
        f = ln.split()
        if not f: continue
        if f[0] == "V": t["V"][f[1]] = (int(f[2]), int(f[3]))
        elif f[0] in ("E", "T"): t[f[0]][(f[1], f[2])] = (int(f[3]), int(f[4]))
        elif f[0] == "C": t["C"][(f[1], f[2])] = int(f[3])
        elif f[0] in ("K", "R"): t[f[0]][f[1]] = int(f[2])
    return t, None

def run(tier, seed, replay):
    t0 = time.time()
    known = R.load_known()
    fails = []
    audit = R.lean_audit("C15")
    if audit["problems"] or audit["discharged"] != audit["obligations"] or audit["obligations"] == 0:
        fails.append(("theorem-audit", "Props/C15.lean no longer checks: %s no-failing-input-found" % "; ".join(audit["problems"])[:300], "\n".join(audit["problems"])))
    rlib, out = S.build_rlib("default")
    if rlib is None:
        print("crate build failed:\n" + (out or "")[-2000:]); return 2
    lt, err = lean_table()
    if lt is None:
        print("lean table dump failed:\n" + err[-2000:]); return 2
    # --- the auto-trait grid, computed by the real compiler in one program
    os.makedirs(S.PROBES, exist_ok=True)
    gsrc = os.path.join(S.PROBES, "c15_grid.rs"); gbin = os.path.join(S.PROBES, "c15_grid")
    open(gsrc, "w").write(grid_program())
    p = subprocess.run(["rustc", "--edition", "2021", "-A", "warnings", "-C", "opt-level=0", "--extern", "any_vec=" + rlib, "-o", gbin, gsrc],
                       stdout=subprocess.PIPE, stderr=subprocess.PIPE, text=True, timeout=900)
    rows = 0; disagreements = 0
    if p.returncode != 0:
        fails.append(("grid-build", "the auto-trait grid program no longer compiles against the crate (a public type changed?) no-failing-input-found", p.stderr[-3000:]))
        table = {}
    else:
        out = subprocess.run([gbin], stdout=subprocess.PIPE, text=True, timeout=120).stdout
        setbits = {n: b for n, _, b in SETS}; bkbits = {n: b for n, _, b in BACKENDS}; tbits = {n: b for n, _, b in TCLASSES}
        settype = {n: t for n, t, _ in SETS}; bktype = {n: t for n, t, _ in BACKENDS}; ttype = {n: t for n, t, _ in TCLASSES}
        vec = {}
        hkind = {n: k for n, _, k in HANDLES}; hkind.update({n: k for n, _, k in THANDLES}); hkind.update({n: k for n, _, k in VHANDLES})
        htype = {n: t for n, t, _ in HANDLES}; htype.update({n: t for n, t, _ in THANDLES})
        htype.update({n: "the result of AnyVecTyped<'_, {t}, {m}>::" + e.split("tv.")[1].split("(")[0] + "(..)" for n, e, _ in VHANDLES})
        vexpr = {n: e for n, e, _ in VHANDLES}
        parsed = [ln.split() for ln in out.splitlines() if ln.strip()]
        for f in parsed:
            if f[0] == "V": vec[(f[1], f[2])] = (int(f[3]), int(f[4]))
        for f in parsed:
            rows += 1
            if f[0] == "V":
                sn, bn, sd, sy = f[1], f[2], int(f[3]), int(f[4])
                sb, bb = setbits[sn], bkbits[bn]
                want = (int(sb[0] and bb[0] and bb[2]), int(sb[1] and bb[1] and bb[3]))
                key = "".join(map(str, sb + bb))
                if (sd, sy) != want:
                    fails.append(("row:V:%s:%s" % (sn, bn), "AnyVec<%s, %s>: Send=%d Sync=%d, but the declared set / backend give Send=%d Sync=%d" % (settype[sn], bktype[bn], sd, sy, want[0], want[1]),
                                  "fn check<T: Send>() {}\n// AnyVec<%s, %s>" % (settype[sn], bktype[bn])))
                if lt["V"].get(key) != (sd, sy):
                    disagreements += 1
                    fails.append(("model:V:%s:%s" % (sn, bn), "model and rustc disagree on AnyVec<%s, %s>: rustc %s / model %s no-failing-input-found" % (settype[sn], bktype[bn], (sd, sy), lt["V"].get(key)), ""))
            elif f[0] == "E":
                sn, bn, hn, sd, sy = f[1], f[2], f[3], int(f[4]), int(f[5])
                vs, vy = vec[(sn, bn)]
                ty = htype[hn].format(tr=settype[sn], m=bktype[bn])
                ok = True
                if sd and hkind[hn] == "shared" and not vy: ok = False; why = "is Send although it is a shared handle and &AnyVec is not Send (the vector is not Sync)"
                if sd and hkind[hn] == "exclusive" and not vs: ok = False; why = "is Send although the vector is not Send"
                if sy and not vy: ok = False; why = "is Sync although the vector is not Sync"
                if not ok:
                    fails.append(("row:E:%s:%s:%s" % (hn, sn, bn), "%s %s" % (ty, why),
                                  PRELUDE + "fn assert_send<T: Send>() {}\nfn assert_sync<T: Sync>() {}\nfn main() { %s::<%s>(); }\n// compiles, but must not: %s\n" % (
                                      "assert_send" if sd and "Send" in why else "assert_sync", ty, why)))
                key = "".join(map(str, setbits[sn] + bkbits[bn]))
                if lt["E"].get((key, hn)) != (sd, sy):
                    disagreements += 1
                    fails.append(("model:E:%s:%s:%s" % (hn, sn, bn), "model and rustc disagree on %s: rustc (Send,Sync)=%s / model %s no-failing-input-found" % (ty, (sd, sy), lt["E"].get((key, hn))), ""))
            elif f[0] == "T":
                tn, bn, hn, sd, sy = f[1], f[2], f[3], int(f[4]), int(f[5])
                tb, bb = tbits[tn], bkbits[bn]
                vs = int(tb[0] and bb[0] and bb[2]); vy = int(tb[1] and bb[1] and bb[3])
                ty = htype[hn].format(t=ttype[tn], m=bktype[bn])
                ok = True
                if sd and hkind[hn] == "shared" and not vy: ok = False; why = "is Send although it is a shared view and the element type / backend is not Sync"
                if sd and hkind[hn] == "exclusive" and not vs: ok = False; why = "is Send although the element type / backend is not Send"
                if sy and not vy: ok = False; why = "is Sync although the element type / backend is not Sync"
                if not ok and hn in vexpr:
                    fails.append(("row:T:%s:%s:%s" % (hn, tn, bn), "%s %s" % (ty, why),
                                  PRELUDE + "fn assert_send<T: Send>(_: &T) {}\nfn assert_sync<T: Sync>(_: &T) {}\nfn main() { let mut v = AnyVec::<dyn None, %s>::new::<%s>(); "
                                  "let mut tv = v.downcast_mut::<%s>().unwrap(); let d = %s; %s(&d); }\n// compiles, but must not: %s\n" % (
                                      bktype[bn], ttype[tn], ttype[tn], vexpr[hn].format(t=ttype[tn]), "assert_send" if sd and "Send" in why else "assert_sync", why)))
                elif not ok:
                    fails.append(("row:T:%s:%s:%s" % (hn, tn, bn), "%s %s" % (ty, why),
                                  PRELUDE + "fn assert_send<T: Send>() {}\nfn assert_sync<T: Sync>() {}\nfn main() { %s::<%s>(); }\n// compiles, but must not: %s\n" % (
                                      "assert_send" if sd and "Send" in why else "assert_sync", ty, why)))
                key = "".join(map(str, tb + bb))
                if lt["T"].get((key, hn)) != (sd, sy):
                    disagreements += 1
                    fails.append(("model:T:%s:%s:%s" % (hn, tn, bn), "model and rustc disagree on %s: rustc (Send,Sync)=%s / model %s no-failing-input-found" % (ty, (sd, sy), lt["T"].get((key, hn))), ""))
    # --- constructors / clone / capacity API: compile probes
    cps = ctor_probes(); aps = api_probes()
    res = S.run_probes([(n, s, {}) for (n, s, *_) in cps + aps], rlib)
    for n, s, want, what, sb, eb in cps:
        r = res[n]
        if r["ok"] != want:
            fails.append(("probe:" + n, "%s: rustc %s it, the declared constraint set %s" % (what, "accepts" if r["ok"] else "rejects",
                          "is not satisfied by the element type" if not want else "is satisfied"), s + "\n/* rustc: " + r["stderr"][-600:] + " */"))
        m = lt["C"].get(("".join(map(str, sb)), "".join(map(str, eb))))
        if m is not None and bool(m) != r["ok"]:
            disagreements += 1
            fails.append(("model:" + n, "model and rustc disagree on %s no-failing-input-found" % what, s))
    for n, s, want, what, tab, key in aps:
        r = res[n]
        if r["ok"] != want:
            fails.append(("probe:" + n, "%s: rustc %s it" % (what, "accepts" if r["ok"] else "rejects"), s + "\n/* rustc: " + r["stderr"][-600:] + " */"))
        m = lt[tab].get(str(key))
        if m is not None and bool(m) != r["ok"]:
            disagreements += 1
            fails.append(("model:" + n, "model and rustc disagree on %s no-failing-input-found" % what, s))
    rc, nviol, hits = S.report("C15", fails, known)
    S.evidence("C15", tier, seed, audit, {"grid_rows": rows, "compile_probes": len(cps) + len(aps), "model_vs_rustc_disagreements": disagreements,
               "exhaustive": True, "known_findings_hit": hits}, time.time() - t0, nviol,
               "the full grid: 8 constraint sets x 8 backends (Heap, Stack, StackN, Empty, user backends whose builder or Mem is !Send / !Sync) x "
               "{AnyVec + 10 handle/iterator types} x {Send, Sync}; typed views and the iterators typed drain / splice return (probed on values) x 4 element classes x 8 backends; every constructor x constraint set x "
               "element class; clone()/capacity API availability; each row decided by rustc, checked against the property and against the Lean table",
               ["E send heap ElementRef <Send> <Sync>", "ctor AnyVec<dyn Send>::new::<E010>() must be rejected", "clone() on AnyVec<dyn Sync> must be rejected"],
               rows + len(cps) + len(aps), rows + len(cps) + len(aps))
    print("C15 %s: %d grid rows, %d compile probes, %d model/rustc disagreements, %d theorems (%d discharged), %.1fs" % (
        tier, rows, len(cps) + len(aps), disagreements, audit["obligations"], audit["discharged"], time.time() - t0))
    return rc
