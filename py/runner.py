"""Builds everything from the current trees, runs scripts on the implementation and on the Lean
model, compares the two observation streams, evaluates the direct oracles, classifies, writes
replays and evidence."""
import concurrent.futures as cf
import hashlib, json, os, re, subprocess, sys, time

import obs as O
from shadow import Shadow

VERIF = "/verif"
REPO = "/repo"
BUILD = os.path.join(VERIF, ".build")
HARNESS_DIR = os.path.join(VERIF, "harness")
LEAN_DIR = os.path.join(VERIF, "lean")
DRIVER = os.path.join(LEAN_DIR, ".lake/build/bin/driver")
ALLOWED_AXIOMS = {"propext", "Classical.choice", "Quot.sound"}
NJOBS = min(16, os.cpu_count() or 4)

def sh(cmd, cwd=None, env=None, timeout=3600):
    e = dict(os.environ); e["CARGO_NET_OFFLINE"] = "true"
    if env: e.update(env)
    p = subprocess.run(cmd, cwd=cwd, env=e, shell=isinstance(cmd, str), stdout=subprocess.PIPE,
                       stderr=subprocess.STDOUT, text=True, timeout=timeout)
    return p.returncode, p.stdout

# ------------------------------------------------------------------------------------------ builds
def build_harness(profile="dev", features=None):
    """rebuild the harness against /repo's current working tree; returns path of the binary"""
    cmd = ["cargo", "build", "--offline", "--quiet"]
    tdir = os.path.join(BUILD, "harness" if features is None else "harness-" + features)
    if profile == "release": cmd.append("--release")
    if features == "noalloc": cmd += ["--no-default-features"]
    cmd += ["--target-dir", tdir]
    rc, out = sh(cmd, cwd=HARNESS_DIR)
    if rc != 0:
        return None, out
    return os.path.join(tdir, "release" if profile == "release" else "debug", "anyvec-harness"), out

def build_lean(targets):
    rc, out = sh(["lake", "build"] + targets, cwd=LEAN_DIR)
    return rc == 0, out

# the integer kernels of /repo/src whose re-translation (py/kernelgen.py -> Gen/Kernel.lean) the property's theorems use
KERNELS_OF = {
    "C01": ["insert_unchecked_cmds", "push_unchecked_cmds", "clear_cmds", "pop_consume_cmds", "remove_consume_cmds",
            "swap_remove_consume_cmds", "raw_index_check_trace", "anyvec_push_trace", "anyvec_insert_trace", "anyvec_pop_trace",
            "anyvec_remove_trace", "anyvec_swap_remove_trace", "anyvec_drain_trace", "anyvec_clear_trace", "typed_push_trace",
            "typed_insert_trace", "typed_pop_trace", "typed_remove_trace", "typed_swap_remove_trace", "typed_clear_trace",
            "copy_bytes_prog"],
    "C02": ["into_range", "drain_drop_cmds", "move_elements_at_cmds", "splice_drop_pre_cmds", "splice_drop_post_cmds"],
    "C03": ["drop_elements_range_cmds", "temp_drop_cmds", "clear_cmds", "pop_new", "remove_new", "swap_remove_new", "drop_fn_cmds",
            "element_drop_cmds"],
    "C04": ["raw_type_check_trace", "anyvec_push_trace", "anyvec_insert_trace", "typed_push_trace", "typed_insert_trace",
            "value_downcast_ref_trace", "value_downcast_trace", "value_downcast_mut_trace", "element_downcast_ref_trace",
            "element_downcast_mut_trace", "anyvec_downcast_ref_trace", "anyvec_downcast_mut_trace", "value_swap_trace",
            "value_downcast_unchecked_trace"],
    "C08": ["clone_cmds", "clone_fn_cmds", "raw_clone_empty_in_fields", "raw_clone_empty_fields", "anyvec_clone_empty_fields",
            "anyvec_clone_empty_in_fields", "anyvec_clone_fields",
            "anyvec_new_trace", "anyvec_new_in_trace", "anyvec_with_capacity_trace", "anyvec_with_capacity_in_trace", "anyvec_build_trace", "anyvec_element_typeid_trace", "anyvec_element_layout_trace", "anyvec_element_drop_trace", "anyvec_element_clone_trace", "raw_element_layout_trace"],
    "C09": ["lazy_move_into_trace", "lazy_clone_into_trace", "value_move_into_trace", "temp_move_into_trace"],
    "C10": ["reserve", "reserve_exact", "shrink_to_fit", "shrink_to", "heap_expand", "expand_exact_default",
            "anyvec_reserve_trace", "anyvec_reserve_exact_trace", "anyvec_shrink_to_fit_trace", "anyvec_shrink_to_trace", "anyvec_set_len_trace", "anyvec_capacity_trace", "raw_capacity_trace", "raw_drop_trace", "typed_reserve_trace", "typed_reserve_exact_trace", "typed_shrink_to_fit_trace", "typed_shrink_to_trace", "typed_set_len_trace", "typed_capacity_trace", "mem_expand_default_trace", "mem_expand_exact_default_trace", "heap_build_with_size_trace"],
    "C11": ["stack_build", "stackn_build", "stackn_size", "reserve_one", "expand_one", "stack_mem_accessors", "stackn_mem_accessors",
            "empty_mem_accessors"],
    "C12": ["as_bytes_view", "as_bytes_mut_view", "spare_bytes_mut_view", "as_slice_view", "as_mut_slice_view",
            "spare_capacity_mut_view", "stack_mem_align", "stackn_mem_align", "stack_max_align",
            "element_ptr_at_off", "element_mut_ptr_at_off", "heap_mem_accessors", "stack_mem_accessors", "stackn_mem_accessors",
            "empty_mem_accessors", "mem_mod_helpers"],
    "C13": ["anyvec_get_trace", "anyvec_get_mut_trace", "anyvec_at_trace", "anyvec_at_mut_trace", "typed_get_trace",
            "typed_get_mut_trace", "typed_at_trace", "typed_at_mut_trace", "anyvec_iter_trace", "anyvec_iter_mut_trace",
            "value_swap_unchecked_trace", "anyvec_insert_unchecked_trace", "anyvec_push_unchecked_trace", "anyvec_get_unchecked_trace", "anyvec_get_unchecked_mut_trace", "typed_iter_mut_trace", "typed_get_unchecked_trace", "typed_get_unchecked_mut_trace", "opsiter_next_trace", "opsiter_next_back_trace", "opsiter_len_trace", "opsiter_size_hint_trace", "temp_bytes_len_trace", "temp_size_trace", "temp_as_bytes_ptr_trace", "temp_clone_into_trace", "element_size_trace", "element_value_typeid_trace", "element_clone_into_trace", "lib_copy_nonoverlapping_value_trace", "ptr_element_size_trace", "ptr_element_typeid_trace"],
    "C14": ["iter_len", "iter_next", "iter_next_back", "iter_clone",
            "iter_new_fields", "into_range", "drain_new", "splice_new"],
    "C06": ["pop_new", "remove_new", "swap_remove_new", "drain_new", "splice_new", "insert_unchecked_cmds", "clear_cmds",
            "temp_drop_cmds", "splice_drop_pre_cmds", "splice_drop_post_cmds"],
    "C07": ["pop_new", "remove_new", "swap_remove_new", "drain_new", "splice_new", "temp_drop_cmds", "drain_drop_cmds"],
    "C17": ["anyvec_into_raw_parts_fields", "anyvec_from_raw_parts_fields", "raw_parts_clone_fields", "heapmem_from_raw_parts_fields",
            "heap_build_fields", "heapmem_into_raw_parts_text", "empty_mem_accessors", "heap_mem_accessors"],
    "C18": ["heap_resize_cmds", "heap_drop_resize"],
}

def regenerate_kernels():
    """re-translate the integer kernels from /repo's working tree; returns {kernel: error}"""
    import kernelgen
    txt, errs = kernelgen.translate(os.path.join(REPO, "src"))
    p = os.path.join(LEAN_DIR, "AnyVecModel", "Gen", "Kernel.lean")
    old = open(p).read() if os.path.exists(p) else None
    if old != txt:
        with open(p, "w") as f: f.write(txt)
    return errs

def lean_audit(prop):
    """kernel-check the property's theorems; returns dict(obligations, discharged, axioms, problems)"""
    mod = "AnyVecModel.Props.%s" % prop
    path = os.path.join(LEAN_DIR, "AnyVecModel", "Props", "%s.lean" % prop)
    res = {"module": mod, "obligations": 0, "discharged": 0, "theorems": [], "axioms": [], "problems": [], "built": False}
    if not os.path.exists(path):
        res["problems"].append("no theorem file for %s" % prop); return res
    kerrs = regenerate_kernels()
    for k in KERNELS_OF.get(prop, []):
        if k in kerrs:
            res["problems"].append("source tie: the function behind kernel `%s` in /repo/src could not be re-translated (%s)" % (k, kerrs[k]))
    res["kernels_retranslated"] = KERNELS_OF.get(prop, [])
    # trait-method implementations of the property's anchor files: an override of a provided method (Iterator::nth, …)
    # changes what existing callers get without touching any translated function
    inv = inventory_problems(prop)
    res["trait_impl_blocks_checked"] = inv[1]
    for msg in inv[0]:
        res["problems"].append("source tie: " + msg + " - code the model does not cover")
    ok, out = build_lean([mod, "driver"])
    res["built"] = ok
    if not ok:
        res["problems"].append("lake build failed: " + out[-2000:]); return res
    if res["problems"]: return res
    # forbidden constructs anywhere in the development (comments stripped)
    bad = re.compile(r"\b(sorry|admit|native_decide|bv_decide|implemented_by|unsafe)\b|^\s*axiom\s|maxHeartbeats\s+0")
    for root, _, files in os.walk(os.path.join(LEAN_DIR, "AnyVecModel")):
        for f in files:
            if not f.endswith(".lean"): continue
            txt = open(os.path.join(root, f)).read()
            txt = re.sub(r"/-.*?-/", "", txt, flags=re.S)
            for ln in txt.splitlines():
                ln = re.sub(r'"(\\.|[^"\\])*"', '""', ln)     # string literals (generated tables quote Rust source)
                ln = ln.split("--")[0]
                if bad.search(ln): res["problems"].append("%s: forbidden construct: %s" % (f, ln.strip()[:80]))
    # axioms of every theorem of the property file
    src = open(path).read()
    names = re.findall(r"^theorem\s+([A-Za-z0-9_.']+)", src, flags=re.M)
    ns = re.findall(r"^namespace\s+([A-Za-z0-9_.]+)", src, flags=re.M)
    prefix = (".".join(ns) + ".") if ns else ""
    audit = os.path.join(BUILD, "audit_%s.lean" % prop)
    os.makedirs(BUILD, exist_ok=True)
    with open(audit, "w") as f:
        f.write("import %s\n" % mod)
        for n in names: f.write("#print axioms %s%s\n" % (prefix, n))
    rc, out = sh(["lake", "env", "lean", audit], cwd=LEAN_DIR)
    res["obligations"] = len(names)
    cur = None
    blocks = re.split(r"(?m)^'", out)
    for b in blocks[1:]:
        m = re.match(r"([^']+)' (depends on axioms: \[([^\]]*)\]|does not depend on any axioms)", b, flags=re.S)
        if not m: continue
        axs = [a.strip() for a in (m.group(3) or "").replace("\n", " ").split(",") if a.strip()]
        res["theorems"].append(m.group(1))
        for a in axs:
            if a not in res["axioms"]: res["axioms"].append(a)
        if all(a in ALLOWED_AXIOMS for a in axs): res["discharged"] += 1
        else: res["problems"].append("%s depends on %s" % (m.group(1), axs))
    if rc != 0: res["problems"].append("axiom audit failed: " + out[-1500:])
    # thorough tier: the compiled module is re-checked by the toolchain's independent checker
    if os.environ.get("VERIF_AUDIT_TIER") == "thorough":
        rc2, out2 = sh(["lake", "env", "leanchecker", mod], cwd=LEAN_DIR)
        res["leanchecker"] = "ok" if rc2 == 0 else ("failed: " + out2[-500:])
        if rc2 != 0: res["problems"].append("leanchecker rejects %s: %s" % (mod, out2[-500:]))
    if len(res["theorems"]) != len(names):
        res["problems"].append("audited %d of %d theorems" % (len(res["theorems"]), len(names)))
    return res

def anchor_files(prop):
    for ln in open(os.path.join(VERIF, "properties.jsonl")):
        ln = ln.strip()
        if not ln: continue
        p = json.loads(ln)
        if p.get("id") == prop:
            return [f[4:] for f in p.get("anchors", {}).get("files", []) if f.startswith("src/")]
    return []

def inventory_problems(prop):
    """(problems, number of `impl Trait for Type` blocks compared) for the anchor files of the property"""
    import inventory as INV
    pinned = json.load(open(os.path.join(VERIF, "py", "trait_impls.json")))
    cur = INV.scan(os.path.join(REPO, "src"))
    files = anchor_files(prop)
    return INV.diff(pinned, cur, files), sum(len(cur.get(f, [])) for f in files)

# ------------------------------------------------------------------------------------------ execution
def run_stream(binary, text, timeout=1200):
    try:
        p = subprocess.run([binary], input=text, stdout=subprocess.PIPE, stderr=subprocess.PIPE, text=True, timeout=timeout)
    except subprocess.TimeoutExpired as ex:
        # a hang is reported like a death of the process in the case it was working on
        so = ex.stdout if isinstance(ex.stdout, str) else (ex.stdout or b"").decode("utf-8", "replace")
        return -99, so, "timeout after %ds" % timeout
    return p.returncode, p.stdout, p.stderr

def split_cases(stdout):
    """observation stream -> {case name: [lines]} in order"""
    cases = {}; cur = None; order = []
    for ln in stdout.splitlines():
        if ln.startswith("C "):
            cur = ln[2:].strip(); cases[cur] = []; order.append(cur)
        elif cur is not None:
            cases[cur].append(ln)
    return cases, order

MAX_CRASHES_PER_CHUNK = 4

def run_chunk(harness, cases):
    """run one chunk on both sides; returns {name: (impl_lines|None, model_lines|None, crashed)}"""
    text = "".join(c.text() for c in cases)
    out = {}
    rc_m, so_m, se_m = run_stream(DRIVER, text)
    mcases, _ = split_cases(so_m)
    pending = list(cases)
    icases = {}
    crashed = {}
    while pending:
        t = "".join(c.text() for c in pending)
        rc, so, se = run_stream(harness, t)
        got, order = split_cases(so)
        icases.update(got)
        if rc == 0: break
        # the process died: the last announced case is the culprit
        bad = order[-1] if order else pending[0].name
        crashed[bad] = "exit status %s: %s" % (rc, (se or "")[-300:].replace("\n", " "))
        idx = [i for i, c in enumerate(pending) if c.name == bad]
        pending = pending[idx[0] + 1:] if idx else []
        if len(crashed) >= MAX_CRASHES_PER_CHUNK:
            # enough replays of the same kind: the remaining cases of this chunk are not run (and not judged)
            for c in pending: icases.setdefault(c.name, None); crashed.setdefault(c.name, None)
            skipped = set(c.name for c in pending)
            for c in cases:
                if c.name in skipped: out[c.name] = ("skipped", None, None)
            pending = []
    for c in cases:
        if c.name in out: continue
        out[c.name] = (icases.get(c.name), mcases.get(c.name), crashed.get(c.name))
    return out

def op_lines(case):
    """[(fault, tokens)] for the lines of a case that produce an observation line"""
    res = []; fault = None
    for ln in case.lines:
        t = ln.split()
        if not t or t[0] == "#": continue
        if t[0] == "fault": fault = int(t[1]); continue
        res.append((fault, t)); fault = None
    return res

class Finding:
    def __init__(self, case, klass, kind, msg, step=None):
        self.case = case; self.klass = klass; self.kind = kind; self.msg = msg; self.step = step
    def key(self): return (self.klass, self.kind, self.msg.split(":")[0])

def check_case(case, impl, model, crash, proj_opts, kinds):
    """returns (findings, stats)"""
    fs = []
    stats = {"steps": 0, "exact": 0, "invariant_only": 0, "panics": 0, "faults_fired": 0}
    ops = op_lines(case)
    if crash:
        fs.append(Finding(case, "A", "crash", "the implementation process died in this case (%s)" % crash)); return fs, stats
    if impl is None:
        fs.append(Finding(case, "B", "missing", "no implementation output for this case")); return fs, stats
    sh_ = Shadow(case.size, case.align, bool(case.drop))
    iobs = [O.parse_line(l) for l in impl]
    mobs = [O.parse_line(l) for l in model] if model is not None else None
    if len(iobs) != len(ops):
        fs.append(Finding(case, "B", "stream", "implementation printed %d lines for %d operations" % (len(iobs), len(ops))))
    for k, ((fault, toks), o) in enumerate(zip(ops, iobs)):
        stats["steps"] += 1
        if toks[0] == "end":
            sh_.end(o if o.kind == "Z" else None)
            newf = sh_.fails[:]; sh_.fails = []
            for kind, msg in newf:
                fs.append(Finding(case, "A", kind, msg, k))
        elif o.kind == "R":
            if o.res == "panic": stats["panics"] += 1
            for kind, msg in sh_.step(toks, fault, o):
                fs.append(Finding(case, "A", kind, msg, k))
            sh_.fails = []
        else:
            fs.append(Finding(case, "B", "stream", "unexpected line %r for %r" % (o.raw, toks), k))
        if mobs is not None:
            # after the first disagreement the model is no longer compared, but the oracles keep judging the rest of
            # the implementation's stream: that is the search for a concrete failing input
            if k >= len(mobs):
                fs.append(Finding(case, "B", "stream", "model stream ended early", k)); mobs = None; continue
            m = mobs[k]
            pi, pm = O.project(o, **proj_opts), O.project(m, **proj_opts)
            if m.kind == "R" and m.res.startswith("ub"):
                fs.append(Finding(case, "B", "model-ub", "model reports %s for %r" % (m.res, toks), k)); mobs = None; continue
            if pi != pm:
                fs.append(Finding(case, "B", "disagree", "op %r: impl %s / model %s" % (" ".join(toks), pi, pm), k)); mobs = None; continue
            if proj_opts.get("want_alloc") and o.kind == "R" and o.res != "ok":
                if not O.alloc_subsequence_ok(m.ev, o.ev):
                    fs.append(Finding(case, "B", "disagree", "op %r: allocator events impl %s / model %s" % (" ".join(toks), o.ev, m.ev), k)); mobs = None; continue
    stats["exact"] = sh_.stats["exact"]; stats["invariant_only"] = sh_.stats["invariant_only"]
    if kinds is not None:
        fs = [f for f in fs if f.klass == "B" or f.kind in kinds or f.kind in ("crash", "oracle-error")]
    return fs, stats

def run_cases(harness, cases, proj_opts, kinds, chunk=200, chunk_lines=6000):
    # chunks of comparable weight: at most `chunk` cases and about `chunk_lines` script lines (long random histories
    # would otherwise pile up in the last chunks)
    chunks = []; cur = []; w = 0
    for c in cases:
        cur.append(c); w += len(c.lines)
        if len(cur) >= chunk or w >= chunk_lines:
            chunks.append(cur); cur = []; w = 0
    if cur: chunks.append(cur)
    findings = []; stats = {"steps": 0, "exact": 0, "invariant_only": 0, "panics": 0, "cases": 0, "validated": 0}
    with cf.ThreadPoolExecutor(max_workers=NJOBS) as ex:
        for ch, res in zip(chunks, ex.map(lambda ch: run_chunk(harness, ch), chunks)):
            for c in ch:
                impl, model, crash = res[c.name]
                if impl == "skipped":
                    stats["skipped_after_crashes"] = stats.get("skipped_after_crashes", 0) + 1
                    continue
                fs, st = check_case(c, impl, model, crash, proj_opts, kinds)
                stats["cases"] += 1
                for k in ("steps", "exact", "invariant_only", "panics"): stats[k] += st[k]
                if not any(f.klass == "B" for f in fs) and model is not None: stats["validated"] += 1
                findings += fs
    return findings, stats

# ------------------------------------------------------------------------------------------ shrinking
def shrink_case(harness, case, proj_opts, kinds, want):
    """greedy line removal keeping a finding with the same (class, kind)"""
    import copy
    best = case
    def still_fails(c):
        res = run_chunk(harness, [c])
        impl, model, crash = res[c.name]
        fs, _ = check_case(c, impl, model, crash, proj_opts, kinds)
        return any((f.klass, f.kind) == want for f in fs)
    body = [l for l in case.lines]
    i = 0; tries = 0
    while i < len(body) and tries < 120:
        ln = body[i]
        if ln.split()[0] in ("new", "withcap", "end", "clone", "cloneempty", "cloneemptyin"):
            i += 1; continue
        cand = copy.copy(case); cand.lines = body[:i] + body[i + 1:]
        if i + 1 < len(body) and ln.startswith("fault"):
            i += 1; continue
        if i > 0 and body[i - 1].startswith("fault"):
            cand.lines = body[:i - 1] + body[i + 1:]
        tries += 1
        try:
            if still_fails(cand):
                body = cand.lines; best = cand; i = max(0, i - 1); continue
        except Exception:
            pass
        i += 1
    return best

# ------------------------------------------------------------------------------------------ findings / evidence
def load_known():
    p = os.path.join(VERIF, "known_findings.json")
    if not os.path.exists(p): return []
    return json.load(open(p)).get("findings", [])

def match_known(prop, f, known):
    for k in known:
        if k.get("property") != prop or k.get("status") != "open": continue
        m = k.get("match", {})
        if "kind" in m and m["kind"] != f.kind: continue
        if "op" in m and not any(l.split()[0] == m["op"] for l in f.case.lines): continue
        if "msg_re" in m and not re.search(m["msg_re"], f.msg): continue
        if "backend_re" in m and not any(re.search(m["backend_re"], l) for l in f.case.lines if l.startswith(("new", "withcap", "cloneemptyin"))): continue
        if "align_min" in m and f.case.align < m["align_min"]: continue
        return k
    return None

def write_replay(prop, f, impl=None, model=None, note=""):
    d = os.path.join(VERIF, "replays", prop)
    os.makedirs(d, exist_ok=True)
    h = hashlib.sha1((f.case.text() + f.kind).encode()).hexdigest()[:10]
    p = os.path.join(d, "%s-%s.txt" % (f.kind, h))
    with open(p, "w") as fh:
        fh.write("# property %s  class %s  kind %s\n# %s\n" % (prop, f.klass, f.kind, f.msg.replace("\n", " ")))
        if note: fh.write("# %s\n" % note)
        fh.write("# replay: bin/check %s --replay %s\n" % (prop, p))
        fh.write(f.case.text())
    return p

def write_evidence(prop, tier, seed, level, coverage, assumptions, wall, violations):
    d = os.path.join(VERIF, "evidence"); os.makedirs(d, exist_ok=True)
    ev = {"property_id": prop, "tier": tier, "seed": seed, "level": level, "coverage": coverage,
          "assumptions": assumptions, "wall_s": round(wall, 2), "violations": violations}
    with open(os.path.join(d, "%s.json" % prop), "w") as f: json.dump(ev, f, indent=1)
